package rules

import (
	"go/ast"
	"go/token"
	"go/types"
	"strings"

	"sialint/internal/cfgx"
	"sialint/internal/ir"
)

// Rules added after the tenth round of seeded changes (round j). Each is registered under the property whose clause it
// decides; the Explanations of those properties are extended in their own files.

func init() {
	register(&Rule{ID: "C09.R7", Prop: "C09", Floor: 1, Doc: "a contractor's revise step stores the roots it is given on every success path (also an empty list)", Run: c09r7})
	register(&Rule{ID: "C09.R8", Prop: "C09", Floor: 1, Doc: "a helper that hands the contract lock's release on to its caller has not released it itself on that path", Run: c09r8})
	register(&Rule{ID: "C08.R10", Prop: "C08", Floor: 1, Doc: "the contract lock's release is still pending when the lock helper returns it (same check as C09.R8)", Run: c09r8})
	register(&Rule{ID: "C08.R9", Prop: "C08", Floor: 1, Doc: "a contract is reported revisable only strictly before its proof height", Run: c08r9})
	register(&Rule{ID: "C06.R9", Prop: "C06", Floor: 2, Doc: "an event's inflow/outflow sums count only elements whose address passed the relevance test", Run: c06r9})
	register(&Rule{ID: "C06.R10", Prop: "C06", Floor: 1, Doc: "a store's proof-update pass writes every element it updated through a copy back, on every path", Run: c06r10})
}

// implsOf lists the repository's declared methods with the name and signature of the interface method m.
func implsOf(c *Ctx, m *types.Func) []*ir.Func {
	var out []*ir.Func
	ms := m.Type().(*types.Signature)
	for _, f := range c.P.Funcs {
		if f.Obj == nil || f.Obj.Name() != m.Name() || f.Lit != nil {
			continue
		}
		sig := f.Obj.Type().(*types.Signature)
		if sig.Recv() == nil || !types.Identical(types.NewSignatureType(nil, nil, nil, sig.Params(), sig.Results(), false), types.NewSignatureType(nil, nil, nil, ms.Params(), ms.Results(), false)) {
			continue
		}
		out = append(out, f)
	}
	return out
}

// c09r7: Contractor.ReviseV2Contract(id, revision, roots, usage) — the revision it commits covers exactly `roots`; an
// implementation that keeps the old list on some success path (e.g. when the new list is empty: every sector freed)
// leaves stored roots that no longer match the committed file size and Merkle root.
func c09r7(c *Ctx) {
	revise := c.P.Method("rhp", "Contractor", "ReviseV2Contract")
	n := 0
	for _, raw := range implsOf(c, revise) {
		n++
		f := c.P.Expand(raw, ir.ExpandOpt{Key: "all"})
		g := f.Graph()
		c.VisitGraph(f)
		ob := c.Ob(f, "roots-stored-on-success", f.Body.Pos())
		var roots types.Object
		sig := raw.Obj.Type().(*types.Signature)
		for i := 0; i < sig.Params().Len(); i++ {
			if sl, ok := sig.Params().At(i).Type().Underlying().(*types.Slice); ok && ir.IsNamed(sl.Elem(), ir.PkgPath("types"), "Hash256") {
				roots = sig.Params().At(i)
			}
		}
		if roots == nil {
			ob.Unknown("roots parameter of %s not found", f.Name())
			continue
		}
		recv := sig.Recv()
		// the list and the locals computed from it (a copy bound to a helper's parameter)
		derived := map[types.Object]bool{roots: true}
		mentionsDerived := func(e ast.Expr) bool {
			for o := range derived {
				if f.MentionsObj(e, false, o) {
					return true
				}
			}
			return false
		}
		for changed := true; changed; {
			changed = false
			for _, w := range f.WritesIn(f.Body, false) {
				if w.RHS == nil || !mentionsDerived(w.RHS) {
					continue
				}
				if id, isID := ast.Unparen(w.LHS).(*ast.Ident); isID {
					if o, isVar := f.ObjOf(id).(*types.Var); isVar && !o.IsField() && !derived[o] {
						if _, isSlice := o.Type().Underlying().(*types.Slice); isSlice {
							derived[o] = true
							changed = true
						}
					}
				}
			}
		}
		stores := func(nd *cfgx.Node) bool {
			if nd.AST == nil {
				return false
			}
			for _, w := range f.WritesIn(nd.AST, false) {
				if w.RHS == nil || !mentionsDerived(w.RHS) {
					continue
				}
				// into the receiver's state (a table entry or a field)
				if root, _ := f.RootObj(w.LHS); root != nil && (root == types.Object(recv) || c.P.OrigObj(root) == types.Object(recv)) {
					return true
				}
			}
			return false
		}
		var wit *cfgx.Visit
		for nd, v := range g.Reach([]*cfgx.Visit{cfgx.StartAt(g.Entry, 0)}, stores) {
			if _, isRet := nd.AST.(*ast.ReturnStmt); isRet && f.ClassifyReturn(nd) == ir.RetSuccess && wit == nil {
				wit = v
			}
		}
		if wit != nil {
			ob.Bad(c.Witness(wit), "%s can return success without having stored the roots it was given: the committed revision (file size, Merkle root) then describes a different list than the one the next lock hands out — after freeing every sector the old roots stay", f.Name())
		} else {
			ob.OK("every success path stores the given roots in the receiver")
		}
	}
	if n == 0 {
		ir.Fail("no repository implementation of Contractor.ReviseV2Contract found")
	}
}

// c09r8 / C08.R10: a function that locks a contract and returns the release function together with a nil error hands a
// lock that is still held: on that path it has neither called nor deferred the release. (A `sync.Once`-guarded release
// makes the caller's deferred call a silent no-op, so nothing else notices.)
func c09r8(c *Ctx) {
	lock := c.P.Method("rhp", "Contractor", "LockV2Contract")
	n := 0
	for _, raw := range c.P.PkgFuncs("rhp") {
		if raw.Obj == nil || raw.Type.Results == nil || len(raw.CallsTo(false, lock)) == 0 {
			continue
		}
		f := c.P.Expand(raw, ir.ExpandOpt{Key: "defers", Defers: true})
		g := f.Graph()
		// the release function: the second result of the lock call
		var rel types.Object
		for _, call := range f.CallsTo(false, lock) {
			if nd := g.NodeContaining(call.Pos()); nd != nil {
				if as, ok := nd.AST.(*ast.AssignStmt); ok && len(as.Lhs) == 3 && len(as.Rhs) == 1 {
					rel = f.ObjOf(as.Lhs[1])
				}
			}
		}
		if rel == nil {
			continue
		}
		// … handed on to the caller: a success return that mentions it (as a result of its own, or as a field of a
		// record that describes the locked contract)
		var handsOn []*cfgx.Node
		for _, ret := range g.Returns() {
			rs, ok := ret.AST.(*ast.ReturnStmt)
			if !ok || f.ClassifyReturn(ret) != ir.RetSuccess {
				continue
			}
			for _, r := range rs.Results {
				if f.MentionsObj(r, false, rel) {
					handsOn = append(handsOn, ret)
					break
				}
			}
		}
		if len(handsOn) == 0 {
			continue
		}
		n++
		c.VisitGraph(f)
		ob := c.Ob(f, "lock-still-held-when-handed-on", f.Body.Pos())
		bad := ""
		calls := func(nd *cfgx.Node) bool {
			if nd.AST == nil {
				return false
			}
			if _, isDefer := nd.AST.(*ast.DeferStmt); isDefer {
				return false // (made explicit before the returns by the view)
			}
			for _, call := range f.NodeCalls(nd) {
				if id, isID := ast.Unparen(call.Expr.Fun).(*ast.Ident); isID && f.ObjOf(id) == rel {
					return true
				}
			}
			return false
		}
		for _, ret := range handsOn {
			for _, nd := range g.Nodes {
				if !calls(nd) || !g.Live(nd) {
					continue
				}
				if _, hit := g.Reach([]*cfgx.Visit{cfgx.StartAt(nd, 0)}, nil)[ret]; hit {
					bad = c.P.Pos(nd.Pos())
				}
			}
		}
		ob.Check(bad == "", nil, "%s returns the contract lock's release function together with success although it has already run it (at %s): the caller works on a contract that is no longer locked, so a concurrent RPC can commit a revision in between and the roots stored at the end no longer match the committed contract", f.Name(), bad)
	}
	if n == 0 {
		ir.Fail("no lock helper (a function of package rhp that calls Contractor.LockV2Contract and returns the release function) found")
	}
}

// c08r9: consensus accepts a revision only in blocks below the contract's proof height, so a contractor must stop
// calling a contract revisable when the tip *reaches* that height: the comparison that feeds RevisionState.Revisable is
// strict.
func c08r9(c *Ctx) {
	lock := c.P.Method("rhp", "Contractor", "LockV2Contract")
	revisable := c.P.Field("rhp", "RevisionState", "Revisable")
	n := 0
	for _, raw := range implsOf(c, lock) {
		f := c.P.Expand(raw, ir.ExpandOpt{Key: "all"})
		var vals []ast.Expr
		ir.Walk(f.Body, true, func(x ast.Node) {
			switch s := x.(type) {
			case *ast.KeyValueExpr:
				// (by name: the keys of a literal assembled by the normalisation carry no use record)
				if id, ok := s.Key.(*ast.Ident); ok && (f.Info().Uses[id] == types.Object(revisable) || (f.Info().Uses[id] == nil && id.Name == revisable.Name())) {
					vals = append(vals, s.Value)
				}
			case *ast.AssignStmt:
				for i, l := range s.Lhs {
					if f.FieldOf(l) == revisable && len(s.Lhs) == len(s.Rhs) {
						vals = append(vals, s.Rhs[i])
					}
				}
			}
		})
		for _, v := range vals {
			if cv, isConst := constBoolOf(f, v); isConst && !cv {
				continue // an error path's zero state
			}
			n++
			c.VisitGraph(f)
			ob := c.Ob(f, "revisable-strictly-before-proof-height", v.Pos())
			// the comparison with the proof height, looking through local bools
			var verdict, at string
			var look func(e ast.Expr, depth int)
			look = func(e ast.Expr, depth int) {
				ast.Inspect(e, func(y ast.Node) bool {
					switch t := y.(type) {
					case *ast.BinaryExpr:
						l, r := mentionsText(t.X, "ProofHeight"), mentionsText(t.Y, "ProofHeight")
						if l == r {
							return true
						}
						op := t.Op
						if l { // ProofHeight op x  ≡  x op' ProofHeight
							switch op {
							case token.GTR:
								op = token.LSS
							case token.GEQ:
								op = token.LEQ
							case token.LSS:
								op = token.GTR
							case token.LEQ:
								op = token.GEQ
							}
						}
						// negation context is not followed: the repository writes the test positively
						switch op {
						case token.LSS:
							if verdict == "" {
								verdict = "strict"
							}
						case token.LEQ:
							verdict, at = "loose", c.P.Pos(t.Pos())
						}
					case *ast.Ident:
						if depth < 3 {
							if o := f.ObjOf(t); o != nil {
								if _, isVar := o.(*types.Var); isVar && isBasicKind(types.Bool)(o.Type()) {
									for _, d := range wholeDefs(f, o) {
										if d.RHS != nil {
											look(d.RHS, depth+1)
										}
									}
								}
							}
						}
					}
					return true
				})
			}
			look(v, 0)
			switch verdict {
			case "strict":
				ob.OK("tip height < proof height")
			case "loose":
				ob.Bad(nil, "%s reports a contract revisable while the tip height is still equal to its proof height (comparison at %s): a revision signed then can only be confirmed in the next block, at which consensus rejects it — the host has committed, and credited the renter for, a revision that can never reach the chain", f.Name(), at)
			default:
				ob.Bad(nil, "the value stored in RevisionState.Revisable by %s does not compare the tip height with the contract's proof height: a contract past its proof height keeps accepting revisions consensus will refuse", f.Name())
			}
		}
	}
	if n == 0 {
		ir.Fail("no repository implementation of Contractor.LockV2Contract that fills RevisionState.Revisable found")
	}
}

// c06r9: SiacoinInflow / SiacoinOutflow (and their siafund twins) are "what the relevant addresses received / spent".
// A v2 transaction's inputs and outputs include other parties': a sum over them is the wallet's only where the element's
// address passed the relevance test. (The payout cases return a single element and have no loop.)
func c06r9(c *Ctx) {
	relevantFld := c.P.Field("wallet", "Event", "Relevant")
	n := 0
	for _, raw := range c.P.MethodsOf("wallet", "Event") {
		if raw.Type.Results == nil || raw.Type.Results.NumFields() != 1 || !ir.IsNamed(raw.Obj.Type().(*types.Signature).Results().At(0).Type(), ir.PkgPath("types"), "Currency") {
			continue
		}
		f := c.P.Expand(raw, ir.ExpandOpt{Key: "all"})
		g := f.Graph()
		// e mentions v, or a local that was computed from v (two hops)
		var derives func(e ast.Expr, v types.Object, depth int) bool
		derives = func(e ast.Expr, v types.Object, depth int) bool {
			if e == nil || v == nil {
				return false
			}
			if f.MentionsObj(e, false, v) {
				return true
			}
			if depth >= 2 {
				return false
			}
			hit := false
			ast.Inspect(e, func(y ast.Node) bool {
				if id, ok := y.(*ast.Ident); ok && !hit {
					if o := origin(f, id); o != ast.Expr(id) && derives(o, v, depth+1) {
						hit = true
					}
				}
				return !hit
			})
			return hit
		}
		// a set / predicate that stands for membership in Event.Relevant
		fromRelevant := func(e ast.Expr) bool {
			hit := false
			ast.Inspect(e, func(y ast.Node) bool {
				x, isExpr := y.(ast.Expr)
				if !isExpr || hit {
					return !hit
				}
				if f.FieldOf(x) == relevantFld {
					hit = true
				}
				if o := f.ObjOf(x); o != nil {
					if _, isMap := o.Type().Underlying().(*types.Map); isMap {
						ir.Walk(f.Body, false, func(z ast.Node) {
							if rs, isRange := z.(*ast.RangeStmt); isRange && f.FieldOf(ast.Unparen(origin(f, rs.X))) == relevantFld {
								for _, w := range f.WritesIn(rs.Body, false) {
									if ix, isIx := ast.Unparen(w.LHS).(*ast.IndexExpr); isIx && f.ObjOf(ix.X) == o {
										hit = true
									}
								}
							}
						})
					}
				}
				if call, isCall := x.(*ast.CallExpr); isCall {
					if fn := f.Callee(call); fn != nil {
						if body := c.P.FuncOf(fn); body != nil && body.MentionsField(body.Body, true, relevantFld) {
							hit = true
						}
					}
				}
				return !hit
			})
			return hit
		}
		// the passing edge of a relevance test on (something computed from) the loop variable lv, at condition node m
		passEdge := func(m *cfgx.Node, lv types.Object) *cfgx.Edge {
			e := ast.Unparen(m.AST.(ast.Expr))
			neg := false
			for {
				u, isU := e.(*ast.UnaryExpr)
				if !isU || u.Op != token.NOT {
					break
				}
				neg = !neg
				e = ast.Unparen(u.X)
			}
			ok := false
			switch t := e.(type) {
			case *ast.Ident:
				// `_, ok := set[addr]`
				if call, _ := tupleDef(f, f.ObjOf(t)); call == nil {
					for _, d := range wholeDefs(f, f.ObjOf(t)) {
						if rhs := ir.TupleRHS(d.Stmt); rhs != nil {
							if ix, isIx := ast.Unparen(rhs).(*ast.IndexExpr); isIx && derives(ix.Index, lv, 0) && fromRelevant(ix.X) {
								ok = true
							}
						}
					}
				}
			case *ast.BinaryExpr:
				// the comparison of a desugared slices.Contains(e.Relevant, addr)
				if t.Op == token.EQL {
					for _, pair := range [][2]ast.Expr{{t.X, t.Y}, {t.Y, t.X}} {
						if o := f.ObjOf(ast.Unparen(pair[0])); o != nil && derives(pair[1], lv, 0) {
							ir.Walk(f.Body, false, func(z ast.Node) {
								if rs, isRange := z.(*ast.RangeStmt); isRange && rs.Value != nil && f.ObjOf(rs.Value) == o && f.FieldOf(ast.Unparen(origin(f, rs.X))) == relevantFld {
									ok = true
								}
							})
						}
					}
				}
			default:
				if derives(e, lv, 0) && fromRelevant(e) {
					ok = true
				}
			}
			if !ok {
				return nil
			}
			if neg {
				return m.Succs[1]
			}
			return m.Succs[0]
		}
		ir.Walk(f.Body, false, func(x ast.Node) {
			rs, ok := x.(*ast.RangeStmt)
			if !ok || rs.Value == nil {
				return
			}
			lv := f.ObjOf(rs.Value)
			if lv == nil {
				return
			}
			// a list of a whole transaction (the event's own lists of spent elements are collected per relevant
			// address when the event is built)
			sel, isSel := ast.Unparen(origin(f, rs.X)).(*ast.SelectorExpr)
			if !isSel {
				return
			}
			ofTxn := false
			if t := f.TypeOf(sel.X); t != nil {
				for _, nm := range []string{"Transaction", "V2Transaction"} {
					if ir.IsNamed(t, ir.PkgPath("types"), nm) {
						ofTxn = true
					}
					if core := c.P.Named("types", nm); core != nil && types.Identical(t.Underlying(), core.Underlying()) {
						ofTxn = true
					}
				}
			}
			if !ofTxn {
				return
			}
			for _, nd := range g.Nodes {
				if nd.AST == nil || !containsNode(rs.Body, nd.AST) {
					continue
				}
				adds := false
				for _, call := range f.NodeCalls(nd) {
					if call.Fn != nil && call.Fn.Name() == "Add" && recvNamed(call.Fn) != nil && recvNamed(call.Fn).Obj().Name() == "Currency" && len(call.Expr.Args) == 1 && derives(call.Expr.Args[0], lv, 0) {
						adds = true
					}
				}
				if !adds {
					continue
				}
				n++
				c.VisitGraph(f)
				ob := c.Ob(f, "sum-counts-relevant-only", nd.Pos())
				var pass []*cfgx.Edge
				for _, m := range g.Nodes {
					if m.AST == nil || m.Block == nil || m.Block.Cond != m.AST || len(m.Succs) != 2 || !containsNode(rs.Body, m.AST) {
						continue
					}
					if e := passEdge(m, lv); e != nil {
						pass = append(pass, e)
					}
				}
				if len(pass) > 0 && f.OnlyVia(nd, pass) {
					ob.OK("behind the relevance test of the element's address")
				} else {
					ob.Bad(nil, "%s adds the value of an element at %s without the element's address having passed the relevance test (membership in Event.Relevant): a v2 transaction funded by someone else counts their inputs as the wallet's outflow, so the event ledger (inflow − outflow) no longer equals the wallet's unspent outputs and events whose flows cancel are dropped", f.Name(), c.P.Pos(nd.Pos()))
				}
			}
		})
	}
	if n == 0 {
		ir.Fail("no summing loop found in the Event flow methods of package wallet")
	}
}

// c06r10: `for id, se := range store { pu.UpdateElementProof(&se.StateElement); store[id] = se }` — the updater
// writes through a pointer into the loop's copy, so the update exists only once the copy is stored back. A pass that
// skips the write-back on some path (say, when the proof did not grow) keeps a stale — after a revert, overlong — proof.
func c06r10(c *Ctx) {
	upd := c.P.Method("wallet", "ProofUpdater", "UpdateElementProof")
	n := 0
	for _, raw := range c.P.Funcs {
		if raw.Obj == nil || raw.Lit != nil || len(raw.CallsTo(true, upd)) == 0 {
			continue
		}
		if raw.Pkg.PkgPath == ir.PkgPath("wallet") {
			continue // (the wallet itself only implements the updater)
		}
		f := c.P.Expand(raw, ir.ExpandOpt{Key: "all"})
		g := f.Graph()
		ir.Walk(f.Body, false, func(x ast.Node) {
			rs, ok := x.(*ast.RangeStmt)
			if !ok || rs.Value == nil {
				return
			}
			lv := f.ObjOf(rs.Value)
			if lv == nil || isPointer(lv.Type()) {
				return
			}
			for _, call := range f.CallsIn(rs.Body, false) {
				if call.Fn != upd || len(call.Expr.Args) != 1 {
					continue
				}
				u, isAddr := ast.Unparen(call.Expr.Args[0]).(*ast.UnaryExpr)
				if !isAddr || u.Op != token.AND {
					continue
				}
				if root, _ := f.RootObj(u.X); root != lv {
					continue
				}
				n++
				c.VisitGraph(f)
				ob := c.Ob(f, "updated-copy-stored-back", call.Pos())
				cn := g.NodeContaining(call.Pos())
				container := f.FieldOf(rs.X)
				back := func(nd *cfgx.Node) bool {
					if nd.AST == nil || !containsNode(rs.Body, nd.AST) {
						return false
					}
					for _, w := range f.WritesIn(nd.AST, false) {
						ix, isIx := ast.Unparen(w.LHS).(*ast.IndexExpr)
						if !isIx || w.RHS == nil || !f.MentionsObj(w.RHS, false, lv) {
							continue
						}
						if container != nil && f.FieldOf(ix.X) == container {
							return true
						}
						if container == nil && ir.ExprString(ix.X) == ir.ExprString(rs.X) {
							return true
						}
					}
					return false
				}
				var wit *cfgx.Visit
				for nd, v := range g.Reach([]*cfgx.Visit{cfgx.StartAt(cn, 0)}, func(m *cfgx.Node) bool { return m != cn && back(m) }) {
					if nd == cn || v.Prev == nil {
						continue
					}
					// left the iteration: back at the loop's head or past the loop
					if nd.Exit || (nd.AST != nil && !containsNode(rs.Body, nd.AST)) {
						if wit == nil {
							wit = v
						}
					}
				}
				if wit != nil {
					ob.Bad(c.Witness(wit), "in %s the element updated at %s through the address of the loop's copy %q can leave the iteration without being stored back: the store keeps the proof it had before the update (after a revert that shrank the tree, an overlong proof that no longer verifies at the tip)", f.Name(), c.P.Pos(call.Pos()), lv.Name())
				} else {
					ob.OK("stored back on every path of the iteration")
				}
			}
		})
	}
	if n == 0 {
		ir.Fail("no proof-update pass over a copy found outside package wallet")
	}
}

func init() {
	register(&Rule{ID: "C13.R13", Prop: "C13", Floor: 1, Doc: "the v2 adder reports success only after the set's proofs were rebased onto the tip (no early answer for a set that is already pooled)", Run: c13r13})
	register(&Rule{ID: "C13.R14", Prop: "C13", Floor: 4, Doc: "the reorg-path walk records an index before it steps to the index's parent", Run: c13r14})
	register(&Rule{ID: "C04.R8", Prop: "C04", Floor: 4, Doc: "the reorg-path walk records an index before it steps to the index's parent (same check as C13.R14)", Run: c13r14})
	register(&Rule{ID: "C11.R9", Prop: "C11", Floor: 1, Doc: "a peer's block that fails validation leaves no 'already validated' mark behind (same check as C01.R14)", Run: c01r14})
	register(&Rule{ID: "C04.R9", Prop: "C04", Floor: 1, Doc: "the tip walker reports success only after it computed the path to the target (or found the target to be the tip)", Run: c04r9})
	register(&Rule{ID: "C01.R15", Prop: "C01", Floor: 1, Doc: "the tip walker reports success only after it computed the path to the target (same check as C04.R9)", Run: c04r9})
	register(&Rule{ID: "C04.R7", Prop: "C04", Floor: 1, Doc: "pruning rewrites the block record only: the states a subscriber's revert needs stay (same check as C19.R1)", Run: c19r1})
	register(&Rule{ID: "C12.R7", Prop: "C12", Floor: 4, Doc: "fetch worker and committer choose the sync regime by the same predicate on the request's base (same check as C11.R1)", Run: c11r1})
	register(&Rule{ID: "C02.R7", Prop: "C02", Floor: 6, Doc: "the store's answering methods read no field that is written after construction (no memo that outlives a reorg)", Run: c02r7})
}

// loopBodyEntries: the edges that enter the body of loop from the loop's own head (range node / condition).
func loopBodyEntries(g *cfgx.Graph, loop ast.Stmt, body *ast.BlockStmt) []*cfgx.Edge {
	var out []*cfgx.Edge
	for _, nd := range g.Nodes {
		if nd.AST == nil || !containsNode(body, nd.AST) {
			continue
		}
		for _, p := range nd.Preds {
			if p.From != nil && p.From.AST != nil && !containsNode(body, p.From.AST) && (containsNode(loop, p.From.AST) || p.From.AST == ast.Node(loop)) {
				out = append(out, p)
			}
		}
	}
	return out
}

// c13r13: AddV2PoolTransactions(basis, txns) promises that a nil error means the set is valid *at the tip*: v2
// transaction ids do not cover proofs or the basis, so "every id is pooled already" says nothing about the set at hand.
// Every success return therefore lies behind the success side of the rebasing step.
func c13r13(c *Ctx) {
	r := getChainRoles(c.P)
	rebase := rebaseFn(c)
	n := 0
	for _, raw := range c.P.MethodsOf("chain", "Manager") {
		if !exported(raw) || len(r.view(raw).CallsTo(false, rebase.Obj)) == 0 {
			continue
		}
		f := r.view(raw)
		g := f.Graph()
		var ok []*cfgx.Edge
		for _, call := range f.CallsTo(false, rebase.Obj) {
			ok = append(ok, f.CheckOf(call.Expr).Succ...)
		}
		// the pool's adder: (known bool, err error) — the plain rebasing entry point has its own, documented, shortcut
		// for equal indices (C13.R12)
		res := raw.Obj.Type().(*types.Signature).Results()
		if res.Len() != 2 || !ir.IsErrorType(res.At(1).Type()) || !isBasicKind(types.Bool)(res.At(0).Type()) {
			continue
		}
		n++
		c.VisitGraph(f)
		ob := c.Ob(f, "success-only-after-rebase", f.Body.Pos())
		bad := ""
		for _, ret := range g.Returns() {
			if _, isRet := ret.AST.(*ast.ReturnStmt); !isRet || f.ClassifyReturn(ret) != ir.RetSuccess || !g.Live(ret) {
				continue
			}
			if !f.OnlyVia(ret, ok) {
				bad = c.P.Pos(ret.Pos())
			}
		}
		ob.Check(bad == "" && len(ok) > 0, nil, "%s can report success at %s without the set's proofs having been rebased from the given basis onto the tip: an unknown or too distant basis, or stale proofs, are answered with `known, nil` when the ids happen to be pooled", f.Name(), bad)
	}
	if n == 0 {
		ir.Fail("no exported Manager method that rebases a v2 set found")
	}
}

// c13r14: reorgPath walks two indices towards their common ancestor; each loop records the index it stands on in the
// revert / apply list and then steps to the parent. Stepping first records the parent instead: the list skips the
// starting block and ends one block too deep.
func c13r14(c *Ctx) {
	r := getChainRoles(c.P)
	raw := reorgPathFn(c)
	f := r.view(raw)
	g := f.Graph()
	c.VisitGraph(f)
	var walkers []types.Object
	sig := raw.Obj.Type().(*types.Signature)
	for i := 0; i < sig.Params().Len(); i++ {
		if ir.IsNamed(sig.Params().At(i).Type(), ir.PkgPath("types"), "ChainIndex") {
			walkers = append(walkers, sig.Params().At(i))
		}
	}
	n := 0
	ir.Walk(f.Body, false, func(x ast.Node) {
		fs, ok := x.(*ast.ForStmt)
		if !ok {
			return
		}
		for _, v := range walkers {
			moves := func(nd *cfgx.Node) bool {
				if nd.AST == nil || !containsNode(fs.Body, nd.AST) {
					return false
				}
				for _, w := range f.WritesIn(nd.AST, false) {
					if root, _ := f.RootObj(w.LHS); root == v || (root != nil && c.P.OrigObj(root) == v) {
						return true
					}
				}
				for _, call := range f.NodeCalls(nd) {
					for _, a := range call.Expr.Args {
						if u, isAddr := ast.Unparen(a).(*ast.UnaryExpr); isAddr && u.Op == token.AND {
							if o := f.ObjOf(u.X); o == v || (o != nil && c.P.OrigObj(o) == v) {
								return true
							}
						}
					}
				}
				return false
			}
			records := func(nd *cfgx.Node) bool {
				if nd.AST == nil || !containsNode(fs.Body, nd.AST) {
					return false
				}
				for _, call := range f.NodeCalls(nd) {
					if id, isID := ast.Unparen(call.Expr.Fun).(*ast.Ident); isID && id.Name == "append" && len(call.Expr.Args) >= 2 {
						for _, a := range call.Expr.Args[1:] {
							if o := f.ObjOf(a); o == v || (o != nil && c.P.OrigObj(o) == v) {
								return true
							}
						}
					}
				}
				return false
			}
			hasMove, hasRec := false, false
			for _, nd := range g.Nodes {
				hasMove = hasMove || moves(nd)
				hasRec = hasRec || records(nd)
			}
			if !hasMove || !hasRec {
				continue
			}
			n++
			ob := c.Ob(f, "recorded-before-stepping:"+v.Name(), fs.Pos())
			var st []*cfgx.Visit
			for _, e := range loopBodyEntries(g, fs, fs.Body) {
				st = append(st, cfgx.StartAfter(e, 0))
			}
			if len(st) == 0 {
				ob.Unknown("body of the loop at %s has no entry edge", c.P.Pos(fs.Pos()))
				continue
			}
			var wit *cfgx.Visit
			for nd, vis := range g.Reach(st, records) {
				if moves(nd) && wit == nil {
					wit = vis
				}
			}
			if wit != nil {
				ob.Bad(c.Witness(wit), "in the loop at %s the walk steps %s to its parent before recording it: the revert/apply list then holds the parent in the block's place — the starting block is skipped and the list ends one block too deep, so a set rebased along it gets proofs that differ from the ledger's", c.P.Pos(fs.Pos()), v.Name())
			} else {
				ob.OK("recorded, then moved")
			}
		}
	})
	if n == 0 {
		ir.Fail("no loop of the reorg-path walk records and moves an index")
	}
}

// c01r14 / C11.R9: a stored supplement is what AddBlocks reads as "this block was validated before" (it is skipped
// on resubmission and applied without validation on a later reorg). In the apply step the store's AddBlock with a
// supplement therefore lies behind the passing side of ValidateBlock.
func c01r14(c *Ctx) {
	r := getChainRoles(c.P)
	f := r.view(r.applyTip)
	g := f.Graph()
	c.VisitGraph(f)
	var valid []*cfgx.Edge
	for _, call := range f.CallsTo(false, r.validateBlock) {
		valid = append(valid, f.CheckOf(call.Expr).Succ...)
	}
	n := 0
	for _, call := range f.CallsTo(false, r.storeAddBlock) {
		if len(call.Expr.Args) != 2 || f.IsNil(call.Expr.Args[1]) {
			continue
		}
		nd := g.NodeContaining(call.Pos())
		if nd == nil || !g.Live(nd) {
			continue
		}
		n++
		ob := c.Ob(f, "supplement-stored-after-validation", call.Pos())
		if len(valid) > 0 && f.OnlyVia(nd, valid) {
			ob.OK("behind ValidateBlock")
		} else {
			ob.Bad(c.Witness(f.BypassWitness(nd, valid)), "the apply step stores the block's supplement at %s on a path on which ValidateBlock has not passed: a block that then fails validation keeps the mark of a validated block — resubmitted (by an honest peer, with the genuine body) it is skipped as known, and the next reorg over it applies the stored body without validation", c.P.Pos(call.Pos()))
		}
	}
	if n == 0 {
		ir.Fail("the apply step stores no supplement (Store.AddBlock with a supplement) — anchor lost")
	}
}

// c04r9 / C01.R15: reorgTo(target) answers nil only when the tip *is* the target. The only shortcuts that keep that
// are "the path was computed (and then walked)" and "the target equals the tip"; "the target is on the best chain" is
// not one — after the valid prefix of a failed batch was applied, the old tip is an interior block of the best chain and
// the rollback to it must still revert.
func c04r9(c *Ctx) {
	r := getChainRoles(c.P)
	f := r.view(r.reorgTo)
	g := f.Graph()
	c.VisitGraph(f)
	rp := reorgPathFn(c)
	var ok []*cfgx.Edge
	for _, call := range f.CallsTo(false, rp.Obj) {
		ok = append(ok, f.CheckOf(call.Expr).Succ...)
	}
	// target == tip
	var target types.Object
	sig := r.reorgTo.Obj.Type().(*types.Signature)
	for i := 0; i < sig.Params().Len(); i++ {
		if ir.IsNamed(sig.Params().At(i).Type(), ir.PkgPath("types"), "ChainIndex") {
			target = sig.Params().At(i)
		}
	}
	for _, nd := range g.Nodes {
		for _, e := range nd.Succs {
			if edgeEstablishesEq(e, func(x ast.Expr) bool {
				o := f.ObjOf(ast.Unparen(x))
				return o != nil && target != nil && (o == target || c.P.OrigObj(o) == target)
			},
				func(x ast.Expr) bool { return f.MentionsField(x, false, r.tipState) && mentionsText(x, "Index") }) {
				ok = append(ok, e)
			}
		}
	}
	ob := c.Ob(f, "success-only-after-path", f.Body.Pos())
	bad := ""
	for _, ret := range g.Returns() {
		if _, isRet := ret.AST.(*ast.ReturnStmt); !isRet || f.ClassifyReturn(ret) != ir.RetSuccess || !g.Live(ret) {
			continue
		}
		if !f.OnlyVia(ret, ok) {
			bad = c.P.Pos(ret.Pos())
		}
	}
	ob.Check(bad == "" && len(ok) > 0, nil, "the tip walker %s can report success at %s without having computed the path from the tip to its target: when the target is an interior block of the best chain (the tip saved before a batch whose valid prefix was applied) nothing is reverted, the tip stays ahead, and the caller returns its error before any reorg notification — subscribers are left behind a tip that moved", f.Name(), bad)
}

// c02r7: what the store hands out (states, blocks, supplements, proofs) is a function of the database only. A field of
// the store that is written after construction and read by an answering method is a memo; nothing invalidates it when
// the best chain changes, so the answer depends on which forks were visited before.
func c02r7(c *Ctx) {
	dbT := c.P.Named("chain", "DBStore")
	st, _ := dbT.Underlying().(*types.Struct)
	if st == nil {
		ir.Fail("chain.DBStore is not a struct")
	}
	isFld := map[*types.Var]bool{}
	for i := 0; i < st.NumFields(); i++ {
		isFld[st.Field(i)] = true
	}
	methods := c.P.MethodsOf("chain", "DBStore")
	byObj := map[*types.Func]*ir.Func{}
	for _, m := range c.P.PkgFuncs("chain") {
		if m.Obj != nil {
			byObj[m.Obj] = m
		}
	}
	// fields written by methods (constructors are package functions: not listed here)
	written := map[*types.Var]string{}
	for _, m := range methods {
		for _, w := range m.WritesIn(m.Body, true) {
			if fld := lhsField(m, w.LHS); fld != nil && isFld[fld] {
				// whole-field stores and stores into a field of a struct-valued field
				written[fld] = c.P.Pos(w.LHS.Pos())
			}
		}
	}
	n := 0
	for _, m := range methods {
		if !exported(m) || m.Type.Results == nil {
			continue
		}
		res := m.Obj.Type().(*types.Signature).Results()
		answers := false
		for i := 0; i < res.Len(); i++ {
			if !ir.IsErrorType(res.At(i).Type()) {
				answers = true
			}
		}
		if !answers {
			continue
		}
		n++
		c.VisitGraph(m)
		ob := c.Ob(m, "answers-from-the-database-only", m.Body.Pos())
		// fields read in the method and in the package functions it reaches
		seen := map[*ir.Func]bool{}
		bad := ""
		var visit func(f *ir.Func)
		visit = func(f *ir.Func) {
			if f == nil || seen[f] {
				return
			}
			seen[f] = true
			ast.Inspect(f.Body, func(y ast.Node) bool {
				if e, isExpr := y.(ast.Expr); isExpr {
					if fld := f.FieldOf(e); fld != nil && isFld[fld] {
						if at, w := written[fld]; w && bad == "" {
							bad = fld.Name() + " (written at " + at + ", read at " + c.P.Pos(e.Pos()) + ")"
						}
					}
				}
				return true
			})
			for _, call := range f.Calls(true) {
				if call.Fn != nil {
					visit(byObj[call.Fn])
				}
			}
		}
		visit(m)
		ob.Check(bad == "", nil, "%s answers from the store field %s, which methods of the store write after construction: a value remembered across calls is not invalidated when the best chain changes, so what the store hands out (here and to every caller of this method) depends on the forks visited before", m.Name(), bad)
	}
	if n == 0 {
		ir.Fail("no answering method of chain.DBStore found")
	}
}

func init() {
	register(&Rule{ID: "C12.R8", Prop: "C12", Floor: 1, Doc: "at and above the require height the fetched blocks are kept only after the id of the last block (or of every block) was found equal to an id taken from the validated header chain", Run: c12r8})
}

// c12r8: in the checkpoint regime the worker validates each block against the running state, which proves that the
// blocks form *a* valid chain on top of the request's base — any fork that shares the base passes. What ties the reply
// to the header chain being synced (the heaviest one) is the comparison of a block id with an id from the request; it
// has to be the last block's (the parent links then fix all others), or every block's.
func c12r8(c *Ctx) {
	worker := syncWorker(c)
	if worker == nil {
		ir.Fail("sync worker not found")
	}
	g := worker.Graph()
	c.VisitGraph(worker)
	ob := c.Ob(worker, "checkpoint-blocks-match-request-tip", worker.Body.Pos())
	wconds := requireHeightConds(worker)
	if len(wconds) == 0 {
		ob.Unknown("the worker's require-height test was not found")
		return
	}
	isBlockList := func(t types.Type) bool {
		if t == nil {
			return false
		}
		sl, isSlice := t.Underlying().(*types.Slice)
		return isSlice && ir.IsNamed(sl.Elem(), ir.CoreMod+"/types", "Block")
	}
	mentionsBlockList := func(e ast.Expr) bool {
		hit := false
		ast.Inspect(e, func(y ast.Node) bool {
			if id, ok := y.(*ast.Ident); ok {
				if v, isVar := worker.ObjOf(id).(*types.Var); isVar && !v.IsField() && isBlockList(v.Type()) {
					hit = true
				}
			}
			return true
		})
		return hit
	}
	blockID := func(e ast.Expr) (recv ast.Expr, ok bool) {
		call, isCall := ast.Unparen(e).(*ast.CallExpr)
		if !isCall {
			return nil, false
		}
		fn := worker.Callee(call)
		if fn == nil || fn.Name() != "ID" || recvNamed(fn) == nil || recvNamed(fn).Obj().Name() != "Block" {
			return nil, false
		}
		sel, isSel := ast.Unparen(call.Fun).(*ast.SelectorExpr)
		if !isSel {
			return nil, false
		}
		return sel.X, true
	}
	// the last element of a list, or an element met in a loop over the whole list
	pinsTip := func(recv ast.Expr) bool {
		recv = ast.Unparen(origin(worker, recv))
		if ix, ok := recv.(*ast.IndexExpr); ok && isBlockList(worker.TypeOf(ix.X)) {
			if be, isBin := ast.Unparen(ix.Index).(*ast.BinaryExpr); isBin && be.Op == token.SUB {
				if l := lenOf(worker, be.X); l != nil && ir.ExprString(l) == ir.ExprString(ix.X) {
					if k, isConst := worker.ConstInt(be.Y); isConst && k == 1 {
						return true
					}
				}
			}
			// blocks[i] inside `for i := range blocks`
			if o := worker.ObjOf(ix.Index); o != nil {
				found := false
				ir.Walk(worker.Body, false, func(x ast.Node) {
					if rs, isRange := x.(*ast.RangeStmt); isRange && rs.Key != nil && worker.ObjOf(rs.Key) == o && containsNode(rs.Body, recv) {
						found = true
					}
				})
				return found
			}
			return false
		}
		if o := worker.ObjOf(recv); o != nil {
			found := false
			ir.Walk(worker.Body, false, func(x ast.Node) {
				if rs, isRange := x.(*ast.RangeStmt); isRange && rs.Value != nil && worker.ObjOf(rs.Value) == o && isBlockList(worker.TypeOf(rs.X)) {
					found = true
				}
			})
			return found
		}
		return false
	}
	var same []*cfgx.Edge
	for _, m := range g.Nodes {
		if m.AST == nil || m.Block == nil || m.Block.Cond != m.AST || len(m.Succs) != 2 {
			continue
		}
		be, ok := ast.Unparen(m.AST.(ast.Expr)).(*ast.BinaryExpr)
		if !ok || (be.Op != token.NEQ && be.Op != token.EQL) {
			continue
		}
		for _, pair := range [][2]ast.Expr{{be.X, be.Y}, {be.Y, be.X}} {
			recv, isID := blockID(pair[0])
			if !isID || !pinsTip(recv) || mentionsBlockList(pair[1]) {
				continue
			}
			if t := worker.TypeOf(pair[1]); t == nil || !ir.IsNamed(t, ir.CoreMod+"/types", "BlockID") {
				continue
			}
			if be.Op == token.NEQ {
				same = append(same, m.Succs[1])
			} else {
				same = append(same, m.Succs[0])
			}
		}
	}
	// where the fetched blocks are kept on the checkpoint side
	fromGE := worker.ReachableFromEdges([]*cfgx.Edge{wconds[0].ge}, nil)
	n, bad := 0, ""
	for _, node := range g.Nodes {
		if node.AST == nil {
			continue
		}
		if _, onSide := fromGE[node]; !onSide {
			continue
		}
		keeps := false
		for _, w := range worker.WritesIn(node.AST, false) {
			if !isBlockList(worker.TypeOf(w.LHS)) || w.RHS == nil || worker.IsNil(w.RHS) {
				continue
			}
			if _, isCall := ast.Unparen(w.RHS).(*ast.CallExpr); isCall {
				continue
			}
			if _, isField := ast.Unparen(w.LHS).(*ast.SelectorExpr); isField || worker.ObjOf(w.LHS) != nil {
				keeps = true
			}
		}
		if !keeps {
			continue
		}
		// (the other regime's copy is reachable from the ge side only through a loop back; it is decided by C11.R2)
		if _, alsoLT := worker.ReachableFromEdges([]*cfgx.Edge{wconds[0].lt}, nil)[node]; alsoLT {
			continue
		}
		n++
		if len(same) == 0 || !worker.OnlyVia(node, same) {
			bad = c.P.Pos(node.Pos())
		}
	}
	if n == 0 {
		// the list the peer's reply is read into is itself what the worker hands back (a helper's result variable that
		// became the response's): then every way from the request to the worker's end either drops the list (stores
		// nil into it) or crosses the comparison
		sendBlocks := c.P.Method("syncer", "Peer", "SendV2Blocks")
		isSame := map[*cfgx.Edge]bool{}
		for _, e := range same {
			isSame[e] = true
		}
		lists := map[types.Object]bool{}
		fetch := map[*cfgx.Node]bool{}
		for _, call := range worker.CallsTo(false, sendBlocks) {
			nd := g.NodeContaining(call.Pos())
			if nd == nil {
				continue
			}
			if as, isAssign := nd.AST.(*ast.AssignStmt); isAssign && len(as.Lhs) >= 1 {
				if list := worker.ObjOf(as.Lhs[0]); list != nil && isBlockList(list.Type()) {
					lists[list] = true
					fetch[nd] = true
				}
			}
		}
		carriers := map[types.Object]bool{}
		for o := range lists {
			carriers[o] = true
		}
		for changed := true; changed; {
			changed = false
			for _, w := range worker.WritesIn(worker.Body, false) {
				if w.RHS == nil || !carriers[worker.ObjOf(ast.Unparen(w.RHS))] {
					continue
				}
				if root := worker.ObjOf(rootOfLvalue(w.LHS)); root != nil && !carriers[root] {
					carriers[root] = true
					changed = true
				}
			}
		}
		drops := func(m *cfgx.Node) bool {
			if m.AST == nil || fetch[m] {
				return false
			}
			for _, w := range worker.WritesIn(m.AST, false) {
				if lists[worker.ObjOf(w.LHS)] && w.RHS != nil && worker.IsNil(w.RHS) {
					return true
				}
			}
			return false
		}
		// from the checkpoint side of (each spelling of) the regime test: through the request for blocks, to the
		// worker's end
		var st []*cfgx.Visit
		for _, wc := range wconds {
			st = append(st, cfgx.StartAfter(wc.ge, 0))
		}
		isLT := map[*cfgx.Edge]bool{}
		for _, wc := range wconds {
			isLT[wc.lt] = true
		}
		for _, v := range worker.ExploreFeasible(st, cfgx.Walker{
			AtNode: func(m *cfgx.Node, s cfgx.State) (cfgx.State, bool) {
				if fetch[m] {
					s |= 1
				}
				if _, isRet := m.AST.(*ast.ReturnStmt); isRet {
					return s, false
				}
				return s, !(s&1 != 0 && drops(m)) && !m.Exit
			},
			OnEdge: func(e *cfgx.Edge, s cfgx.State) (cfgx.State, bool) { return s, !isSame[e] && !isLT[e] },
		}) {
			if fetch[v.Node] {
				n++
			}
			// an exit that hands back the list (directly, or in a value it was stored into)
			if rs, isRet := v.Node.AST.(*ast.ReturnStmt); isRet && v.State&1 != 0 {
				holds := len(rs.Results) == 0 // named results: the response variable itself
				for o := range carriers {
					if worker.MentionsObj(rs, false, o) {
						holds = true
					}
				}
				if holds {
					bad = c.P.Pos(rs.Pos())
				}
			}
		}
		if n == 0 {
			ob.Unknown("no place where the checkpoint regime keeps the fetched blocks was found")
			return
		}
	}
	ob.Check(bad == "", nil, "at and above the require height the worker keeps the peer's blocks (at %s) without the id of the last block — or of every block — having been found equal to an id from the request: validation alone accepts any valid chain on top of the base, so a peer on another fork that shares the base gets its blocks stored as the answer, the blocks of the heaviest chain then fail to attach, and the honest peer serving them is banned", bad)
}

func init() {
	add := func(prop, text string) { Explanations[prop] += " " + text }
	add("C01", "(R15) the tip walker reports success only behind the success side of the path computation or the test that the target equals the tip (the check of C04.R9).")
	add("C02", "(R7) no exported answering method of DBStore (one with a non-error result), nor a package function it reaches, reads a store field that a method writes after construction: a memo in the store outlives reorgs and makes the answer depend on the forks visited.")
	add("C04", "(R7) pruning performs exactly one write, the block record as (header, nil, nil), so the states a subscriber's revert needs stay (the check of C19.R1); (R8) in every loop of the reorg-path walk an index is appended to the revert/apply list before it is stepped to its parent (the check of C13.R14); (R9) the tip walker returns nil only behind the success side of the reorg-path computation or an equality test of the target with the tip's index — 'the target is on the best chain' is no reason to skip the walk.")
	add("C06", "(R9) in the Event flow methods every addition of an element's value inside a loop over a whole transaction's inputs/outputs lies behind the passing side of a membership test of the element's address in Event.Relevant (or a set filled from it); (R10) outside package wallet, an element handed to ProofUpdater.UpdateElementProof through the address of a range copy is stored back into the ranged container on every path of the iteration.")
	add("C08", "(R9) every value a Contractor implementation stores in RevisionState.Revisable contains a strict comparison 'height < ProofHeight' (looked through local bools); '<=' is reported; (R10) the lock helper has not run the release function it returns with a nil error (the check of C09.R8).")
	add("C09", "(R7) every success return of a Contractor.ReviseV2Contract implementation is reached only through a store of the given roots into the receiver's state; (R8) a function of package rhp that calls Contractor.LockV2Contract and returns the release function has, on a path that returns it with a nil error, neither called nor deferred it (deferred calls made explicit before each return).")
	add("C11", "(R9) in the apply step Store.AddBlock with a supplement — which AddBlocks reads as 'validated before' — lies behind the passing side of consensus.ValidateBlock, so a peer's block that fails validation leaves no such mark.")
	add("C12", "(R7) the committer calls the pre-validated entry under the same require-height predicate on the request's base as the worker branches on (the check of C11.R1): with different predicates a request that straddles the height is fetched in one regime and committed in the other, and the sync wedges; (R8) on the checkpoint side of that predicate the peer's blocks are stored in the response only behind the equal side of a comparison of Block.ID() of the last element (or of every element in a loop) with a BlockID that does not come from the received list — validation alone accepts any valid fork on top of the base.")
	add("C13", "(R13) the exported pool adder for v2 sets (results (bool, error)) returns a nil error only behind the success side of the rebasing step; (R14) in every loop of the reorg-path walk an index is recorded before it is stepped to its parent.")
}

func init() {
	register(&Rule{ID: "C17.R6", Prop: "C17", Floor: 2, Doc: "the caching bucket records every accepted put / delete in its overlay: no success return of its Put or Delete bypasses the overlay's", Run: c17r6})
	Explanations["C17"] += " (R6) every return of the caching bucket's Put / Delete that can report success lies behind (or is) the call of the overlay bucket's Put / Delete — a write skipped because the backend already holds the value leaves an unflushed delete or overwrite of that key in force. (R3, strengthened) MemDB.Cancel removes the entries of each overlay by walking that overlay's own keys (or clearing / replacing it)."
}

// c17r6: CacheDB answers reads from its overlay first, so a write that is not recorded there is invisible behind an
// older unflushed delete or overwrite of the same key, whatever the backend holds.
func c17r6(c *Ctx) {
	cbT, mbT := cacheBucketType(c.P), memBucketType(c.P)
	n := 0
	for _, name := range []string{"Put", "Delete"} {
		f := c.P.Fn("chain", cbT, name)
		if f == nil {
			continue
		}
		overlay := c.P.Method("chain", mbT, name)
		g := f.Graph()
		n++
		c.VisitGraph(f)
		ob := c.Ob(f, "write-reaches-overlay", f.Body.Pos())
		if f.Obj == overlay || (recvNamed(f.Obj) != nil && recvNamed(f.Obj).Obj().Name() == mbT) {
			ob.OK("the caching bucket embeds the overlay bucket: its %s is the overlay's", name)
			continue
		}
		records := func(nd *cfgx.Node) bool {
			if nd.AST == nil {
				return false
			}
			_, ok := f.NodeCallsTo(nd, overlay)
			return ok
		}
		var wit *cfgx.Visit
		for nd, v := range g.Reach([]*cfgx.Visit{cfgx.StartAt(g.Entry, 0)}, records) {
			if _, isRet := nd.AST.(*ast.ReturnStmt); isRet && !records(nd) && f.ClassifyReturn(nd) != ir.RetError && wit == nil {
				wit = v
			}
		}
		if wit != nil {
			ob.Bad(c.Witness(wit), "%s can report success without having called the overlay bucket's %s: the write is not visible behind an unflushed delete or overwrite of the same key (reads consult the overlay first), and the next flush makes the older state durable", f.Name(), name)
		} else {
			ob.OK("every success path goes through the overlay")
		}
	}
	if n == 0 {
		ir.Fail("the caching bucket's Put / Delete not found")
	}
}

func init() {
	register(&Rule{ID: "C15.R8", Prop: "C15", Floor: 2, Doc: "a contractor credits each deposit onto the balance as it stands in that iteration (read-modify-write per deposit), so repeated keys accumulate", Run: c15r8})
	Explanations["C15"] += " (R8) in every implementation of Contractor.CreditAccountsWithContract / CreditPoolsWithContract each store into a balance table inside the loop over the deposits takes its value from a read of that table's entry in the same iteration (directly or through locals of the iteration): balances computed up front from the state before the call make a second deposit to the same key overwrite the first, while the revision moved the sum of both. (R5, strengthened) the mark in the seen-set is the constant true; the alternative design 'duplicates are rejected' is recognised only when the hit side of the membership test really ends in an error."
}

// c15r8: `for _, d := range deposits { bal[d.Account] = bal[d.Account].Add(d.Amount) }` — the read and the store sit in
// one iteration. Splitting them ("compute all new balances, then store them") credits a key listed twice only once.
func c15r8(c *Ctx) {
	n := 0
	for _, name := range []string{"CreditAccountsWithContract", "CreditPoolsWithContract"} {
		if !c.P.HasMethod("rhp", "Contractor", name) {
			continue
		}
		for _, raw := range implsOf(c, c.P.Method("rhp", "Contractor", name)) {
			f := c.P.Expand(raw, ir.ExpandOpt{Key: "all"})
			g := f.Graph()
			isBalances := func(e ast.Expr) *types.Var {
				fld := f.FieldOf(e)
				if fld == nil {
					// a table handed to a shared helper (`creditLedger(ec.accounts, deposits)`)
					fld = lhsFieldA(f, e)
				}
				if fld == nil {
					return nil
				}
				mt, ok := fld.Type().Underlying().(*types.Map)
				if !ok || !ir.IsNamed(mt.Elem(), ir.PkgPath("types"), "Currency") {
					return nil
				}
				return fld
			}
			ir.Walk(f.Body, false, func(x ast.Node) {
				rs, ok := x.(*ast.RangeStmt)
				if !ok {
					return
				}
				for _, nd := range g.Nodes {
					if nd.AST == nil || !containsNode(rs.Body, nd.AST) {
						continue
					}
					for _, w := range f.WritesIn(nd.AST, false) {
						ix, isIx := ast.Unparen(w.LHS).(*ast.IndexExpr)
						if !isIx || w.RHS == nil {
							continue
						}
						tbl := isBalances(ix.X)
						if tbl == nil {
							continue
						}
						n++
						c.VisitGraph(f)
						ob := c.Ob(f, "credit-reads-current-balance", nd.Pos())
						// the stored value, with locals of this iteration resolved
						reads := false
						var visit func(e ast.Expr, depth int)
						visit = func(e ast.Expr, depth int) {
							ast.Inspect(e, func(y ast.Node) bool {
								switch t := y.(type) {
								case *ast.IndexExpr:
									if isBalances(t.X) == tbl {
										reads = true
									}
								case *ast.Ident:
									if depth < 3 {
										for _, d := range wholeDefs(f, f.ObjOf(t)) {
											if d.RHS != nil && containsNode(rs.Body, d.Stmt) {
												visit(d.RHS, depth+1)
											}
										}
									}
								}
								return true
							})
						}
						visit(w.RHS, 0)
						ob.Check(reads, nil, "%s stores a balance at %s that was not read from the table in the same iteration over the deposits: a key that is listed twice is credited once (the second store overwrites the first), while the contract revision moves the sum of both deposits", f.Name(), c.P.Pos(nd.Pos()))
					}
				}
			})
		}
	}
	if n == 0 {
		ir.Fail("no balance store inside a loop over deposits found in the contractors' credit methods")
	}
}

func init() {
	register(&Rule{ID: "C05.R12", Prop: "C05", Floor: 1, Doc: "a set is answered 'known' only when every member is pooled, so a new member is never dropped as known (same check as C14.R6)", Run: c14r6})
	register(&Rule{ID: "C07.R11", Prop: "C07", Floor: 4, Doc: "the wallet's apply / revert steps move the stored elements' proofs on every success path, so a later spend carries proofs valid at the tip (same check as C06.R1)", Run: c06r1})
	register(&Rule{ID: "C07.R12", Prop: "C07", Floor: 1, Doc: "a broadcast set is persisted with the basis and the transactions it was added to the pool with", Run: c07r12})
	register(&Rule{ID: "C18.R12", Prop: "C18", Floor: 1, Doc: "work bound to the thread group's context is also registered with it (WithContext only behind a successful Add), so Close waits for it", Run: c18r12})
	add := func(prop, text string) { Explanations[prop] += " " + text }
	add("C05", "(R12) the flag the set checker returns as 'known' is a conjunction over the whole set (the check of C14.R6): a set whose last member is pooled but an earlier one is new must not be dropped as known.")
	add("C07", "(R11) the wallet's apply and revert steps update the stored elements' proofs before every success return (the check of C06.R1) — a spend funded later carries those proofs; (R12) where the wallet records a broadcast set for re-broadcast, the Basis and Transactions stored are the very values handed to the pool's AddV2PoolTransactions on the dominating success edge: the proofs inside the transactions are for that basis, and a set stored under another index is rejected when it is re-added after a restart, which frees its inputs for a second allocation.")
	add("C18", "(R12) every call of ThreadGroup.WithContext (a context cancelled by Stop) lies behind the success edge of ThreadGroup.Add in the same function: a goroutine that is merely cancelled is not waited for, so Close returns while it still runs.")
}

// c07r12: `AddV2PoolTransactions(index, txns)` then `store.AddBroadcastedSet(BroadcastedSet{Basis: index, Transactions:
// txns})` — the pair that is stored is the pair that was accepted.
func c07r12(c *Ctx) {
	addSet := c.P.Method("wallet", "SingleAddressStore", "AddBroadcastedSet")
	addPool := c.P.Method("wallet", "ChainManager", "AddV2PoolTransactions")
	n := 0
	for _, f := range walletMethods(c) {
		for _, call := range f.CallsTo(false, addSet) {
			if len(call.Expr.Args) != 1 {
				continue
			}
			n++
			g := f.Graph()
			c.VisitGraph(f)
			ob := c.Ob(f, "stored-set-is-the-accepted-set", call.Pos())
			lit, ok := ast.Unparen(origin(f, call.Expr.Args[0])).(*ast.CompositeLit)
			if !ok {
				ob.Unknown("the set stored at %s is not built by a literal in %s", c.P.Pos(call.Pos()), f.Name())
				continue
			}
			var basis, txns types.Object
			for _, el := range lit.Elts {
				if kv, isKV := el.(*ast.KeyValueExpr); isKV {
					if k, isID := kv.Key.(*ast.Ident); isID {
						switch k.Name {
						case "Basis":
							basis = f.ObjOf(ast.Unparen(kv.Value))
						case "Transactions":
							txns = f.ObjOf(ast.Unparen(kv.Value))
						}
					}
				}
			}
			nd := g.NodeContaining(call.Pos())
			good := false
			for _, pc := range f.CallsTo(false, addPool) {
				if len(pc.Expr.Args) != 2 {
					continue
				}
				b, t := f.ObjOf(ast.Unparen(pc.Expr.Args[0])), f.ObjOf(ast.Unparen(pc.Expr.Args[1]))
				if basis != nil && txns != nil && b == basis && t == txns && f.OnlyVia(nd, f.CheckOf(pc.Expr).Succ) {
					good = true
				}
			}
			ob.Check(good, nil, "the set recorded for re-broadcast at %s is not (basis, transactions) exactly as accepted by the pool on the dominating success edge of AddV2PoolTransactions: the transactions' proofs are for the basis they were submitted with; stored under another index the set is rejected when it is re-added after a restart or a tip change, the reservation is gone, and the same outputs fund a second transaction", c.P.Pos(call.Pos()))
		}
	}
	if n == 0 {
		ir.Fail("no call of SingleAddressStore.AddBroadcastedSet found in the wallet")
	}
}

// c18r12: tg.AddContext = tg.Add + tg.WithContext. Using WithContext alone gives a goroutine that Stop cancels but
// does not wait for.
func c18r12(c *Ctx) {
	with := c.P.Method("threadgroup", "ThreadGroup", "WithContext")
	add := c.P.Method("threadgroup", "ThreadGroup", "Add")
	addCtx := c.P.Method("threadgroup", "ThreadGroup", "AddContext")
	n := 0
	for _, f := range c.P.Funcs {
		if f.View || f.Body == nil {
			continue
		}
		if pos := c.P.Pos(f.Body.Pos()); strings.Contains(pos, "_test.go") {
			continue
		}
		for _, call := range f.CallsTo(false, with) {
			n++
			g := f.Graph()
			c.VisitGraph(f)
			ob := c.Ob(f, "context-bound-work-is-registered", call.Pos())
			if f.Pkg.PkgPath == ir.PkgPath("threadgroup") {
				// the thread group's own AddContext: how it registers is its internals (C18.R4); the call keeps this
				// rule's anchor alive
				ob.OK("inside the thread group")
				continue
			}
			var ok []*cfgx.Edge
			for _, ac := range f.CallsTo(false, add, addCtx) {
				ok = append(ok, f.CheckOf(ac.Expr).Succ...)
			}
			nd := g.NodeContaining(call.Pos())
			ob.Check(nd != nil && len(ok) > 0 && f.OnlyVia(nd, ok), nil, "%s binds its work to the thread group's context at %s without having registered it (no successful ThreadGroup.Add on the way): Stop cancels the context but does not wait for this goroutine, so Close returns while it is still inside a store, chain or network call", f.Name(), c.P.Pos(call.Pos()))
		}
	}
	if n == 0 {
		ir.Fail("ThreadGroup.WithContext is not called anywhere (not even by AddContext) — anchor lost")
	}
}

func init() {
	register(&Rule{ID: "C19.R6", Prop: "C19", Floor: 1, Doc: "where only a block's header is needed the store is asked for the header: no body lookup is used solely through header data", Run: c19r6})
	register(&Rule{ID: "C19.R7", Prop: "C19", Floor: 1, Doc: "a list filled from body lookups (which miss for pruned blocks) is subscripted only behind a test that it is not empty", Run: c19r7})
	Explanations["C19"] += " (R6) in chain.Manager every block obtained from Store.Block (which reports pruned bodies as not found) is used for more than its header (Header(), ParentID, Timestamp, Nonce): a lookup that needs the header only must use Store.Header, which header-only records answer — otherwise serving headers fails for every height below the prune point. (R7) in the Manager methods that look bodies up, an element access L[c] / L[len(L)…] of a local list that is filled by appends lies behind the non-empty side of a test of len(L): with every looked-up body pruned the list is empty and the access panics."
}

// c19r6: Store.Block answers "not found" for a pruned block although its header is still stored.
func c19r6(c *Ctx) {
	r := getChainRoles(c.P)
	headerOnly := map[string]bool{"Header": true, "ParentID": true, "Timestamp": true, "Nonce": true}
	n := 0
	for _, f := range r.methodsV {
		for _, call := range f.CallsTo(false, r.storeBlock) {
			nd := f.Graph().NodeContaining(call.Pos())
			if nd == nil {
				continue
			}
			as, ok := nd.AST.(*ast.AssignStmt)
			if !ok || len(as.Lhs) < 1 {
				continue
			}
			blk := f.ObjOf(as.Lhs[0])
			if blk == nil || blk.Name() == "_" {
				continue
			}
			full, hdr := 0, 0
			var walk func(x ast.Node, parent ast.Node)
			seen := map[ast.Node]bool{}
			ast.Inspect(f.Body, func(y ast.Node) bool {
				if sel, isSel := y.(*ast.SelectorExpr); isSel {
					if id, isID := ast.Unparen(sel.X).(*ast.Ident); isID && f.ObjOf(id) == blk {
						seen[id] = true
						if headerOnly[sel.Sel.Name] {
							hdr++
						} else {
							full++
						}
					}
				}
				return true
			})
			_ = walk
			ast.Inspect(f.Body, func(y ast.Node) bool {
				if id, isID := y.(*ast.Ident); isID && !seen[id] && f.Info().Uses[id] == blk {
					full++ // passed on, copied, returned: a use of the whole block
				}
				return true
			})
			if full+hdr == 0 {
				continue
			}
			n++
			c.VisitGraph(f)
			ob := c.Ob(f, "body-lookup-needs-the-body", call.Pos())
			ob.Check(full > 0, nil, "%s looks a block up with Store.Block at %s and uses nothing but its header: Store.Block reports a pruned block as not found, so this fails for every block below the prune height although the header is still stored (Store.Header answers from header-only records)", f.Name(), c.P.Pos(call.Pos()))
		}
	}
	if n == 0 {
		ir.Fail("no use of a block obtained from Store.Block found in chain.Manager")
	}
}

// c19r7: `prevFees[len(prevFees)/2]` after a loop that appends only for bodies that were found.
func c19r7(c *Ctx) {
	r := getChainRoles(c.P)
	n := 0
	for _, f := range r.methodsV {
		if !f.MentionsObj(f.Body, false, r.storeBlock) && len(f.CallsTo(false, r.storeBlock)) == 0 {
			continue
		}
		g := f.Graph()
		// local lists filled by append
		filled := map[types.Object]bool{}
		for _, w := range f.WritesIn(f.Body, false) {
			ac, isCall := ast.Unparen(w.RHS).(*ast.CallExpr)
			if w.RHS == nil || !isCall {
				continue
			}
			if id, isID := ac.Fun.(*ast.Ident); isID && id.Name == "append" && len(ac.Args) >= 2 {
				if o, isVar := f.ObjOf(ast.Unparen(w.LHS)).(*types.Var); isVar && !o.IsField() && f.ObjOf(ac.Args[0]) == types.Object(o) {
					filled[o] = true
				}
			}
		}
		for _, nd := range g.Nodes {
			if nd.AST == nil {
				continue
			}
			ir.Walk(nd.AST, false, func(x ast.Node) {
				ix, ok := x.(*ast.IndexExpr)
				if !ok {
					return
				}
				list := f.ObjOf(ast.Unparen(ix.X))
				if list == nil || !filled[list] {
					return
				}
				positional := false
				if _, isConst := f.ConstInt(ix.Index); isConst {
					positional = true
				}
				ast.Inspect(ix.Index, func(y ast.Node) bool {
					if e, isExpr := y.(ast.Expr); isExpr {
						if l := lenOf(f, e); l != nil && f.ObjOf(ast.Unparen(l)) == list {
							positional = true
						}
					}
					return true
				})
				if !positional {
					return
				}
				n++
				c.VisitGraph(f)
				ob := c.Ob(f, "subscript-behind-non-empty-test:"+list.Name(), ix.Pos())
				var nonEmpty []*cfgx.Edge
				isLen := func(e ast.Expr) bool {
					l := lenOf(f, e)
					return l != nil && f.ObjOf(ast.Unparen(l)) == list
				}
				for _, m := range g.Nodes {
					for _, e := range m.Succs {
						if e.Cond == nil || (e.Kind != cfgx.True && e.Kind != cfgx.False) {
							continue
						}
						// the complement of "len(L) is zero"
						other := &cfgx.Edge{From: e.From, To: e.To, Cond: e.Cond, Kind: cfgx.True}
						if e.Kind == cfgx.True {
							other.Kind = cfgx.False
						}
						if edgeEstablishesZero(f, other, isLen) {
							nonEmpty = append(nonEmpty, e)
						}
					}
				}
				ob.Check(len(nonEmpty) > 0 && f.OnlyVia(nd, nonEmpty), nil, "%s subscripts %s at %s without a preceding test that the list is not empty: the list is filled only for bodies the store still has, so after pruning past the blocks it looks at the access panics (index out of range) instead of the call answering", f.Name(), list.Name(), c.P.Pos(ix.Pos()))
			})
		}
	}
	if n == 0 {
		ir.Fail("no positional access of an append-filled list in the Manager methods that look bodies up")
	}
}

func init() {
	register(&Rule{ID: "C13.R15", Prop: "C13", Floor: 1, Doc: "the rebase examines every input of a transaction: a loop that stores confirmed elements into the inputs' parents is left only when the inputs are exhausted or with an error", Run: c13r15})
	register(&Rule{ID: "C16.R8", Prop: "C16", Floor: 1, Doc: "a formation set re-submitted after one of its parents was confirmed is rebased completely: no input of a transaction is skipped by leaving the promotion loop early (same check as C13.R15)", Run: c13r15})
	register(&Rule{ID: "C16.R9", Prop: "C16", Floor: 1, Doc: "a failed bookkeeping write of the broadcast set does not fail the broadcast: nothing returns on the failure-only side of AddBroadcastedSet", Run: c16r9})
	add := func(prop, text string) { Explanations[prop] += " " + text }
	add("C13", "(R15) in the rebasing method every loop over a transaction's inputs whose body stores into an input's parent state element is left only through its own head or through a return: a `break` (or a jump past the loop) leaves the later inputs with unassigned leaf indices, and the set is rejected at the target.")
	add("C16", "(R8) the check of C13.R15 — the host re-submits [parents…, formation] at the old basis after having recorded the contract; if the rebase skips an input behind an already confirmed one the re-submission fails and the RPC reports failure for a contract that exists; (R9) in the wallet's broadcast method no return lies on the side that only a failed SingleAddressStore.AddBroadcastedSet reaches: the set is already pooled (and, for the host, the contract recorded) at that point, so a bookkeeping error must not be reported as a failed broadcast.")
}

func c13r15(c *Ctx) {
	// the rebasing method and the helpers it is built from, each as written (an expanded helper's returns inside a
	// loop would look like jumps out of it)
	var units []*ir.Func
	seen := map[*ir.Func]bool{}
	var collect func(f *ir.Func, depth int)
	collect = func(f *ir.Func, depth int) {
		if f == nil || seen[f] || depth > 3 {
			return
		}
		seen[f] = true
		units = append(units, f)
		for _, call := range f.Calls(true) {
			if call.Fn != nil && call.Fn.Pkg() != nil && call.Fn.Pkg().Path() == ir.PkgPath("chain") && !call.Fn.Exported() {
				collect(c.P.FuncOf(call.Fn), depth+1)
			}
		}
	}
	collect(rebaseFn(c), 0)
	n := 0
	for _, f := range units {
		n += c13r15unit(c, f)
	}
	if n == 0 {
		ir.Fail("no loop in the rebasing method stores into an input's parent element")
	}
}

func c13r15unit(c *Ctx, f *ir.Func) int {
	g := f.Graph()
	c.VisitGraph(f)
	n := 0
	ir.Walk(f.Body, true, func(x ast.Node) {
		var body *ast.BlockStmt
		var loop ast.Stmt
		switch l := x.(type) {
		case *ast.RangeStmt:
			body, loop = l.Body, l
		case *ast.ForStmt:
			body, loop = l.Body, l
		default:
			return
		}
		// stores into <input>.Parent.StateElement (or the whole parent) of an indexed input
		stores := false
		for _, w := range f.WritesIn(body, false) {
			if !mentionsText(w.LHS, "Parent") {
				continue
			}
			if _, isIx := ast.Unparen(rootIndexOf(w.LHS)).(*ast.IndexExpr); isIx {
				stores = true
			}
		}
		// … or hands the address of an input's parent element to a helper that stores through it
		// (`confirmEphemeral(id, &parent.StateElement)` inside `for j := range txn.SiacoinInputs`)
		if !stores {
			overInputs := false
			if rs, isRange := loop.(*ast.RangeStmt); isRange && mentionsText(rs.X, "Inputs") {
				overInputs = true
			}
			if overInputs {
				ir.Walk(body, false, func(y ast.Node) {
					if u, isAddr := y.(*ast.UnaryExpr); isAddr && u.Op == token.AND && (mentionsText(u.X, "StateElement") || mentionsText(u.X, "Parent")) {
						if t := f.TypeOf(u); t != nil && (ir.IsNamed(t, ir.PkgPath("types"), "StateElement") || mentionsText(u.X, "Parent")) {
							// the address must end up in a call within the body (directly or through a local)
							stores = true
						}
					}
				})
			}
		}
		if !stores {
			return
		}
		// only the innermost such loop
		inner := false
		ir.Walk(body, true, func(y ast.Node) {
			switch y.(type) {
			case *ast.RangeStmt, *ast.ForStmt:
				inner = true
			}
		})
		if inner {
			return
		}
		n++
		ob := c.Ob(f, "every-input-examined", loop.Pos())
		bad := ""
		ir.Walk(body, false, func(y ast.Node) {
			if br, isBr := y.(*ast.BranchStmt); isBr && (br.Tok == token.BREAK || br.Tok == token.GOTO) {
				// a break that belongs to a switch/select inside the body leaves only that statement
				owner := ast.Node(loop)
				ir.Walk(body, false, func(z ast.Node) {
					switch s := z.(type) {
					case *ast.SwitchStmt, *ast.TypeSwitchStmt, *ast.SelectStmt:
						if containsNode(s, br) && br.Label == nil && br.Tok == token.BREAK {
							owner = s
						}
					}
				})
				if owner == ast.Node(loop) {
					bad = c.P.Pos(br.Pos())
				}
			}
		})
		_ = g
		ob.Check(bad == "", nil, "the loop at %s, which gives the inputs of a transaction their confirmed parent elements, can be left at %s before every input was examined: inputs behind that point keep an unassigned leaf index, and the rebased set is rejected at the target (e.g. a funded transaction whose first input is confirmed and whose second is the change of a parent that has just been mined)", c.P.Pos(loop.Pos()), bad)
	})
	return n
}

// rootIndexOf strips selectors down to the first index expression: a.b[i].c.d → a.b[i].
func rootIndexOf(e ast.Expr) ast.Expr {
	for {
		switch t := ast.Unparen(e).(type) {
		case *ast.SelectorExpr:
			e = t.X
		case *ast.StarExpr:
			e = t.X
		default:
			return ast.Unparen(e)
		}
	}
}

func c16r9(c *Ctx) {
	addSet := c.P.Method("wallet", "SingleAddressStore", "AddBroadcastedSet")
	n := 0
	for _, f := range walletMethods(c) {
		for _, call := range f.CallsTo(false, addSet) {
			n++
			g := f.Graph()
			c.VisitGraph(f)
			ob := c.Ob(f, "bookkeeping-failure-not-reported", call.Pos())
			chk := f.CheckOf(call.Expr)
			if len(chk.Fail) == 0 {
				ob.OK("the result of the bookkeeping write is not branched on")
				continue
			}
			onFail := f.ReachableFromEdges(chk.Fail, nil)
			onSucc := f.ReachableFromEdges(chk.Succ, nil)
			bad := ""
			for nd := range onFail {
				if _, both := onSucc[nd]; both {
					continue
				}
				if _, isRet := nd.AST.(*ast.ReturnStmt); isRet && g.Live(nd) {
					bad = c.P.Pos(nd.Pos())
				}
			}
			for _, nd := range chk.Propagated {
				bad = c.P.Pos(nd.Pos())
			}
			ob.Check(bad == "", nil, "%s returns at %s because recording the set for re-broadcast failed: the set is in the pool by then (the formation / renewal handlers have already recorded the contract), so the RPC reports failure, the renter releases its inputs, and the host keeps a contract and a pooled transaction nobody expects", f.Name(), bad)
		}
	}
	if n == 0 {
		ir.Fail("no call of SingleAddressStore.AddBroadcastedSet found in the wallet")
	}
}

func init() {
	register(&Rule{ID: "C01.R16", Prop: "C01", Floor: 3, Doc: "a block is never stored without its state: every Store.AddBlock is preceded or followed, within the same iteration, by Store.AddState on every path", Run: c01r16})
	register(&Rule{ID: "C12.R10", Prop: "C12", Floor: 3, Doc: "side-chain blocks are stored with their states, so the next batch of a long fork finds its parent state (same check as C01.R16)", Run: c01r16})
	register(&Rule{ID: "C12.R9", Prop: "C12", Floor: 1, Doc: "a rejected or finished inbound RPC gives its per-peer and per-subnet slots back, so a node never stops reading an honest peer's streams (same checks as C18.R1/R2)", Run: func(c *Ctx) { c18r1(c); c18r2(c) }})
	add := func(prop, text string) { Explanations[prop] += " " + text }
	add("C01", "(R16) in chain.Manager every call of Store.AddBlock lies, within its loop iteration (or the function), behind a Store.AddState on every path to it, or is followed by one on every path from it: AddBlocks is the only writer of the states of blocks kept on a side chain, and a fork that arrives in more than one batch needs the state of the last stored block as the parent state of the next.")
	add("C12", "(R9) the slot pairing of C18.R1/R2: a per-peer slot that is not given back when an RPC is rejected makes the peer loop block on its own semaphore for good — the node then never reads that honest peer's requests or announcements again; (R10) the check of C01.R16: a fork longer than one 100-block request is stored batch by batch, and the second batch fails with 'missing parent state' (and the honest peer is banned) unless the first was stored with its states.")
}

func c01r16(c *Ctx) {
	r := getChainRoles(c.P)
	n := 0
	for _, f := range r.methodsV {
		g := f.Graph()
		isState := func(nd *cfgx.Node) bool {
			if nd.AST == nil {
				return false
			}
			_, ok := f.NodeCallsTo(nd, r.storeAddState)
			return ok
		}
		for _, call := range f.CallsTo(false, r.storeAddBlock) {
			nd := g.NodeContaining(call.Pos())
			if nd == nil || !g.Live(nd) {
				continue
			}
			n++
			c.VisitGraph(f)
			ob := c.Ob(f, "block-stored-with-state", call.Pos())
			// the iteration the call sits in (or the whole function)
			var loopBody *ast.BlockStmt
			var loop ast.Stmt
			ir.Walk(f.Body, false, func(x ast.Node) {
				switch l := x.(type) {
				case *ast.RangeStmt:
					if containsNode(l.Body, nd.AST) && (loopBody == nil || containsNode(loopBody, l)) {
						loopBody, loop = l.Body, l
					}
				case *ast.ForStmt:
					if containsNode(l.Body, nd.AST) && (loopBody == nil || containsNode(loopBody, l)) {
						loopBody, loop = l.Body, l
					}
				}
			})
			var starts []*cfgx.Visit
			if loop != nil {
				for _, e := range loopBodyEntries(g, loop, loopBody) {
					starts = append(starts, cfgx.StartAfter(e, 0))
				}
			}
			if len(starts) == 0 {
				starts = []*cfgx.Visit{cfgx.StartAt(g.Entry, 0)}
			}
			_, before := g.Reach(starts, isState)[nd]
			before = !before // every way to the call passes AddState
			after := true
			var succ []*cfgx.Visit
			for _, e := range nd.Succs {
				succ = append(succ, cfgx.StartAfter(e, 0))
			}
			for m, v := range g.Reach(succ, isState) {
				_ = v
				if m.Exit {
					if _, isRet := m.AST.(*ast.ReturnStmt); !isRet {
						after = false
					}
				}
				if rs, isRet := m.AST.(*ast.ReturnStmt); isRet && f.ClassifyReturn(m) != ir.RetError {
					_ = rs
					after = false
				}
				if loop != nil && m.AST != nil && !containsNode(loopBody, m.AST) && (containsNode(loop, m.AST) || m.AST == ast.Node(loop)) {
					after = false // back at the loop's head
				}
			}
			ob.Check(before || after, nil, "%s stores a block at %s on a path on which the state that results from it is not stored in the same step: a block kept on a side chain without its state cannot serve as the parent of the next batch of that fork (AddBlocks answers 'missing parent state', and the syncer bans the honest peer that served the batch)", f.Name(), c.P.Pos(call.Pos()))
		}
	}
	if n == 0 {
		ir.Fail("no call of Store.AddBlock found in chain.Manager")
	}
}

func init() {
	register(&Rule{ID: "C09.R9", Prop: "C09", Floor: 4, Doc: "a locked contract is released on every exit of the handler: no return lies between the successful lock and the (deferred) release", Run: c09r9})
	register(&Rule{ID: "C08.R11", Prop: "C08", Floor: 4, Doc: "a rejected request (bad challenge, bad signature) leaves the contract unlocked again (same check as C09.R9)", Run: c09r9})
	add := func(prop, text string) { Explanations[prop] += " " + text }
	add("C09", "(R9) in every RHP4 handler that locks a contract, each path from the success side of the lock to a return passes the release — a `defer unlock()` (directly or in a deferred literal) or a call of it: an early return between lock and defer (a failed challenge check, say) leaves the contract locked for good, and no later append, free or roots RPC can touch it.")
	add("C08", "(R11) the check of C09.R9: a request that is refused after the lock was taken must give the lock back.")
}

func c09r9(c *Ctx) {
	h := getHostAPI(c.P)
	n := 0
	for _, f := range h.handlers {
		for _, site := range h.lockSites(f) {
			if site.unlock == nil || len(site.chk.Succ) == 0 {
				continue
			}
			n++
			c.VisitGraph(f)
			ob := c.Ob(f, "lock-released-on-every-exit", site.call.Pos())
			// the release, also under another name (`locked.unlock = unlock`)
			names := map[types.Object]bool{site.unlock: true}
			for _, w := range f.WritesIn(f.Body, false) {
				if w.RHS != nil && f.ObjOf(ast.Unparen(w.RHS)) == site.unlock {
					if o := f.ObjOf(ast.Unparen(w.LHS)); o != nil {
						names[o] = true
					}
				}
			}
			releases := func(nd *cfgx.Node) bool {
				if nd.AST == nil {
					return false
				}
				hit := false
				ast.Inspect(nd.AST, func(y ast.Node) bool {
					if call, ok := y.(*ast.CallExpr); ok {
						if o := f.ObjOf(ast.Unparen(call.Fun)); o != nil && names[o] {
							hit = true
						}
					}
					return !hit
				})
				return hit
			}
			var wit *cfgx.Visit
			for nd, v := range f.ReachableFromEdges(site.chk.Succ, releases) {
				if _, isRet := nd.AST.(*ast.ReturnStmt); (isRet || nd.Exit) && wit == nil {
					wit = v
				}
			}
			if wit != nil {
				ob.Bad(c.Witness(wit), "%s can return after locking the contract at %s without releasing it (the release is registered or called only later): the contract stays locked, and every later RPC on it — append, free, roots, fund — is refused", f.Name(), c.P.Pos(site.call.Pos()))
			} else {
				ob.OK("every exit behind the lock passes the release")
			}
		}
	}
	if n == 0 {
		ir.Fail("no contract lock with a release function found in the RHP4 handlers")
	}
}
