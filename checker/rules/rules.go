// Package rules holds the property-specific static rules and the machinery
// that runs them and records obligations.
package rules

import (
	"fmt"
	"go/token"
	"os"
	"runtime/debug"
	"sort"
	"strings"

	"sialint/internal/cfgx"
	"sialint/internal/ir"
)

// Status of an obligation.
type Status string

const (
	Discharged Status = "discharged"
	Violated   Status = "violated"
	Undecided  Status = "undecided"
	Pending    Status = "pending"
)

// Ob is one rule instance.
type Ob struct {
	Rule       string   `json:"rule"`
	Key        string   `json:"key"`
	Pos        string   `json:"pos"`
	Status     Status   `json:"status"`
	Msg        string   `json:"msg,omitempty"`
	Witness    []string `json:"witness,omitempty"`
	Nontrivial bool     `json:"nontrivial"`
	Known      bool     `json:"known,omitempty"`
	fn         string
}

// Rule is a registered rule.
type Rule struct {
	ID       string // e.g. C14.R1
	Prop     string // e.g. C14
	Doc      string // one-line statement of the structural predicate
	Floor    int    // minimum number of obligations confirmed by reading
	Thorough bool   // run only in the thorough tier
	Run      func(c *Ctx)
}

// Mutant is a single-instance source rewrite the rule must detect (thorough tier self-test).
type Mutant struct {
	Rule   string // rule expected to fire
	Name   string
	File   string // repository-relative path
	Old    string // exact source text to replace (must occur exactly once unless Nth>0)
	New    string
	Nth    int    // 1-based occurrence when Old occurs several times (0: must be unique)
	Expect string // substring the violated obligation key must contain (optional)
}

// All registered rules and mutants.
var (
	All     []*Rule
	Mutants []Mutant
)

func register(r *Rule) { All = append(All, r) }

func mutant(m Mutant) { Mutants = append(Mutants, m) }

// Ctx is handed to a running rule.
type Ctx struct {
	P     *ir.Prog
	Rule  *Rule
	Tier  string
	Obs   []*Ob
	Evals int // graph nodes / call sites / instructions visited
}

// Ob opens an obligation for construct key at pos inside fn (fn may be nil).
func (c *Ctx) Ob(fn *ir.Func, role string, pos token.Pos) *Ob {
	key := c.Rule.ID
	if fn != nil {
		key += " @ " + fn.Name()
	}
	if role != "" {
		key += " # " + role
	}
	// disambiguate repeated roles deterministically
	n := 0
	for _, o := range c.Obs {
		if o.Key == key || strings.HasPrefix(o.Key, key+"/") {
			n++
		}
	}
	if n > 0 {
		key = fmt.Sprintf("%s/%d", key, n+1)
	}
	o := &Ob{Rule: c.Rule.ID, Key: key, Pos: c.P.Pos(pos), Status: Pending}
	if fn != nil {
		o.fn = fn.Name()
		o.Nontrivial = hasBranch(fn)
	}
	c.Obs = append(c.Obs, o)
	return o
}

func hasBranch(fn *ir.Func) bool {
	for _, n := range fn.Graph().Nodes {
		if len(n.Succs) > 1 {
			return true
		}
	}
	return false
}

// OK discharges the obligation.
func (o *Ob) OK(format string, args ...any) {
	if o.Status == Pending {
		o.Status = Discharged
		o.Msg = fmt.Sprintf(format, args...)
	}
}

// Bad marks the obligation violated.
func (o *Ob) Bad(witness []string, format string, args ...any) {
	o.Status = Violated
	o.Msg = fmt.Sprintf(format, args...)
	o.Witness = witness
}

// Unknown marks the obligation undecided.
func (o *Ob) Unknown(format string, args ...any) {
	if o.Status != Violated {
		o.Status = Undecided
		o.Msg = fmt.Sprintf(format, args...)
	}
}

// Check discharges when ok, otherwise violates.
func (o *Ob) Check(ok bool, witness []string, format string, args ...any) {
	if ok {
		o.OK("ok")
	} else {
		o.Bad(witness, format, args...)
	}
}

// Visit counts analysis work for the evidence file.
func (c *Ctx) Visit(n int) { c.Evals += n }

// VisitGraph counts the nodes of fn's graph as evaluated.
func (c *Ctx) VisitGraph(fn *ir.Func) { c.Evals += len(fn.Graph().Nodes) }

// Witness renders a path for reports.
func (c *Ctx) Witness(v *cfgx.Visit) []string {
	var out []string
	for _, x := range v.Path() {
		if x.Via != nil && x.Via.Kind != cfgx.Next {
			cond := ""
			if x.Via.Cond != nil {
				cond = " [" + ir.ExprString(x.Via.Cond) + "]"
			}
			out = append(out, fmt.Sprintf("  --%s%s-->", x.Via.Kind, cond))
		}
		switch {
		case x.Node.Exit:
			out = append(out, "exit")
		case x.Node.AST != nil:
			out = append(out, c.P.Pos(x.Node.AST.Pos()))
		}
	}
	// compress consecutive duplicates
	var res []string
	for _, s := range out {
		if len(res) == 0 || res[len(res)-1] != s {
			res = append(res, s)
		}
	}
	if len(res) > 40 {
		res = append(res[:20], append([]string{"  ..."}, res[len(res)-19:]...)...)
	}
	return res
}

// RulesFor returns the rules of a property sorted by id.
func RulesFor(prop string) []*Rule {
	var out []*Rule
	for _, r := range All {
		if r.Prop == prop {
			out = append(out, r)
		}
	}
	sort.Slice(out, func(i, j int) bool { return ruleLess(out[i].ID, out[j].ID) })
	return out
}

func ruleLess(a, b string) bool {
	var pa, ra, pb, rb int
	fmt.Sscanf(a, "C%d.R%d", &pa, &ra)
	fmt.Sscanf(b, "C%d.R%d", &pb, &rb)
	if pa != pb {
		return pa < pb
	}
	return ra < rb
}

// MutantsFor returns the self-test mutants of a property.
func MutantsFor(prop string) []Mutant {
	var out []Mutant
	for _, m := range Mutants {
		if strings.HasPrefix(m.Rule, prop+".") {
			out = append(out, m)
		}
	}
	return out
}

// Explanations holds, per property, the text stating what is and is not decided.
var Explanations = map[string]string{}

// RunRule executes one rule, converting panics into undecided obligations.
func RunRule(p *ir.Prog, r *Rule, tier string) (c *Ctx) {
	c = &Ctx{P: p, Rule: r, Tier: tier}
	defer func() {
		if x := recover(); x != nil {
			o := &Ob{Rule: r.ID, Key: r.ID + " # engine", Pos: "-", Status: Undecided}
			if u, ok := x.(ir.Undecided); ok {
				o.Msg = "anchor lost: " + u.Reason
			} else {
				o.Msg = fmt.Sprintf("engine panic: %v", x)
				if os.Getenv("SIALINT_VERBOSE") != "" {
					fmt.Fprintf(os.Stderr, "panic in %s: %v\n%s\n", r.ID, x, debug.Stack())
				}
			}
			c.Obs = append(c.Obs, o)
		}
		for _, o := range c.Obs {
			if o.Status == Pending {
				o.Status = Undecided
				o.Msg = "rule left the obligation pending"
			}
		}
		if len(c.Obs) < r.Floor {
			c.Obs = append(c.Obs, &Ob{Rule: r.ID, Key: r.ID + " # floor", Pos: "-", Status: Undecided,
				Msg: fmt.Sprintf("rule matched %d instances, fewer than the %d confirmed by reading", len(c.Obs), r.Floor)})
		}
	}()
	r.Run(c)
	return c
}
