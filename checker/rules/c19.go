package rules

import (
	"fmt"
	"go/ast"
	"go/token"
	"go/types"

	"sialint/internal/cfgx"
	"sialint/internal/ir"
)

func init() {
	Explanations["C19"] = "Decides structural necessary conditions of 'pruning removes only old block bodies and never breaks the node': (R1) the store's prune step only rewrites the Blocks record of the given id as (header, nil body, nil supplement) — it calls the block writer with two nil constants and no other bucket writer — and is invoked only by the Manager's pruning method with ids taken from the best-chain index at heights strictly below its argument (the height variable is the method's parameter or a copy of it, is otherwise only ever decreased, and the looked-up height is that variable minus a positive constant), in a loop that stops at the first missing body; (R2) every use of a block body or supplement obtained from the store in Manager methods is guarded: supplement dereferences are nil-guarded (same check as C13.R3) and in the apply/update paths a failed lookup (ok == false) leads to an error return before the block is used; (R3) the minimum-reorg-index method stops its walk back from the tip at the first height whose body lookup (Store.Block, not Store.Header) fails; (R4) a reorg failing part-way — e.g. on a pruned body — is rolled back on every path (same check as C01.R3). (R5) the store's ancestor-timestamp lookup does not go through the body-requiring block getter, so it still answers for pruned ancestors. (R2 also) a body stored straight into a container or field must keep the lookup's found flag. (R5 also) in the store's header getter no return with found=false is reachable from the nil side of a test of the record's body pointer. NOT decided: equality of states with an unpruned twin, decoder/encoder agreement for header-only records, the exact minimum reorg index."

	register(&Rule{ID: "C19.R1", Prop: "C19", Floor: 2, Doc: "prune rewrites only the block record as header-only, for best-chain ids below the given height", Run: c19r1})
	register(&Rule{ID: "C19.R3", Prop: "C19", Floor: 1, Doc: "the minimum reorg index walks back only while block bodies exist", Run: c19r3})
	register(&Rule{ID: "C19.R4", Prop: "C19", Floor: 2, Doc: "a reorg that fails on a missing body is rolled back (same check as C01.R3)", Run: c01r3})
	register(&Rule{ID: "C19.R5", Prop: "C19", Floor: 1, Doc: "the store answers ancestor timestamps from header-only records (never through the body-requiring getter)", Run: c19r5})
	register(&Rule{ID: "C19.R2", Prop: "C19", Floor: 5, Doc: "bodies/supplements from the store are used only after ok / non-nil tests", Run: c19r2})
}

func c19r1(c *Ctx) {
	s := getStoreRoles(c.P)
	r := getChainRoles(c.P)
	prune := c.P.Fn("chain", "DBStore", "PruneBlock")
	c.VisitGraph(prune)
	{
		ob := c.Ob(prune, "rewrites-header-only", prune.Body.Pos())
		good, writes := true, 0
		for _, call := range prune.Calls(false) {
			if !s.writers[call.Fn] {
				continue
			}
			writes++
			// the block writer: a DBStore method with three parameters (header, *Block, *Supplement) …
			if len(call.Expr.Args) == 3 && prune.IsNil(call.Expr.Args[1]) && prune.IsNil(call.Expr.Args[2]) {
				continue
			}
			// … or one taking the stored record, whose body and supplement pointers were cleared before
			if len(call.Expr.Args) == 1 && recordCleared(prune, call) {
				continue
			}
			good = false
		}
		ob.Check(good && writes == 1, nil, "DBStore.PruneBlock must perform exactly one write: the block record as (header, nil, nil); found %d bucket-writing calls or a non-nil body/supplement", writes)
	}
	// callers of Store.PruneBlock (helpers, closures and iterators expanded)
	var units []*ir.Func
	for _, v := range r.vs.Roots {
		units = append(units, v)
		units = append(units, v.Lits...)
	}
	for _, f := range c.P.Funcs {
		if f.Pkg.PkgPath != ir.PkgPath("chain") {
			units = append(units, f)
		}
	}
	for _, f := range units {
		for _, call := range f.CallsTo(false, r.storePrune) {
			top := f.Top()
			g := f.Graph()
			c.VisitGraph(f)
			ob := c.Ob(top, "prunes-best-chain-below-height", call.Pos())
			if recvNamed(top.Obj) == nil || recvNamed(top.Obj).Obj().Name() != "Manager" || !exported(top) {
				ob.Bad(nil, "Store.PruneBlock is called from %s, not from the Manager's pruning method", top.Name())
				continue
			}
			// argument: <idx>.ID with idx from Store.BestIndex(h-1)
			sel, ok := ast.Unparen(call.Expr.Args[0]).(*ast.SelectorExpr)
			if !ok || sel.Sel.Name != "ID" {
				ob.Bad(nil, "the pruned id is not the ID of a best-chain index")
				continue
			}
			bi, _ := tupleDef(f, f.ObjOf(sel.X))
			if bi == nil || f.Callee(bi) == nil || f.Callee(bi).Name() != "BestIndex" || len(bi.Args) != 1 {
				ob.Bad(nil, "the pruned id is not taken from Store.BestIndex")
				continue
			}
			be, ok := ast.Unparen(bi.Args[0]).(*ast.BinaryExpr)
			hObj := f.ObjOf(ast.Unparen(bi.Args[0]))
			if ok && be.Op == token.SUB {
				hObj = f.ObjOf(be.X)
			}
			// the height variable is the method's height parameter, or a copy of it, and is otherwise only decreased;
			// the pruned height is that variable minus a positive constant
			okLoop := false
			var param = top.Info().Defs[top.Type.Params.List[0].Names[0]]
			if ok && be.Op == token.SUB && hObj != nil {
				if k, isConst := f.ConstInt(be.Y); isConst && k >= 1 {
					okLoop = true
					seeded := c.P.OrigObj(hObj) == param
					for _, w := range wholeDefs(f, hObj) {
						switch {
						case w.Tok == token.DEC:
						case w.Tok == token.SUB_ASSIGN:
						case (w.Tok == token.DEFINE || w.Tok == token.ASSIGN) && w.RHS != nil && c.P.OrigObj(f.ObjOf(w.RHS)) == param && param != nil:
							seeded = true
						case w.Tok == token.ASSIGN && w.RHS != nil && isSelfMinus(f, w.RHS, hObj):
						default:
							okLoop = false
						}
					}
					if !seeded {
						okLoop = false
					}
					// the parameter itself must not grow before it seeds the variable
					if c.P.OrigObj(hObj) != param {
						for _, w := range wholeDefs(top, param) {
							if w.Tok != token.DEC && w.Tok != token.SUB_ASSIGN {
								okLoop = false
							}
						}
					}
				}
			}
			if !okLoop {
				ob.Bad(nil, "the pruned heights are not h-1 for h counting down from the method's height argument: blocks at or above the requested height (or off the best chain) can be pruned")
				continue
			}
			// the prune call is on the success side of BestIndex's ok and of the body lookup
			pn := g.NodeContaining(call.Pos())
			ob.Check(f.OnlyAfterSuccess(bi, pn), nil, "Store.PruneBlock is reachable when the best-chain index lookup failed")
		}
	}
}

// isSelfMinus: e is `obj - x`.
func isSelfMinus(f *ir.Func, e ast.Expr, obj types.Object) bool {
	be, ok := ast.Unparen(e).(*ast.BinaryExpr)
	return ok && be.Op == token.SUB && f.ObjOf(be.X) == obj
}

func c19r2(c *Ctx) {
	// supplement dereferences: identical to C13.R3
	c13r3(c)
	// ok-flag discipline in the apply step and the update stream: the block value is used only on the ok side
	r := getChainRoles(c.P)
	// (a package function handing out block, supplement, parent state and found flag together, if there is one)
	var bap *types.Func
	func() {
		defer func() { _ = recover() }()
		bap = funcWithResults(c.P, "chain", isNamedT("types", "Block"), func(t types.Type) bool {
			pt, ok := t.(*types.Pointer)
			return ok && ir.IsNamed(pt.Elem(), ir.PkgPath("consensus"), "V1BlockSupplement")
		}, isNamedT("consensus", "State"), isBasicKind(types.Bool))
	}()
	getters := []*types.Func{r.storeBlock}
	if bap != nil {
		getters = append(getters, bap)
	}
	for _, f := range r.methodsV {
		g := f.Graph()
		for _, call := range f.CallsTo(false, getters...) {
			n := g.NodeContaining(call.Pos())
			as, ok := n.AST.(*ast.AssignStmt)
			if !ok {
				continue
			}
			blk := f.ObjOf(as.Lhs[0])
			okv := f.ObjOf(as.Lhs[len(as.Lhs)-1])
			if blk != nil && blk.Name() == "_" {
				continue
			}
			c.VisitGraph(f)
			ob := c.Ob(f, "block-used-only-when-found", call.Pos())
			if blk == nil {
				// the body is stored straight into a container or field (`blocks[i], _, ok = store.Block(id)`)
				if okv == nil || okv.Name() == "_" {
					ob.Bad(nil, "the ok flag of the block lookup at %s is discarded and the block is stored: a pruned (header-only) block is handed on as an empty block instead of an error", c.P.Pos(call.Pos()))
				} else {
					ob.OK("stored with its flag kept")
				}
				continue
			}
			if okv == nil || okv.Name() == "_" {
				// frozen exception: the walker reads the first reverted block only to refill the pool; a zero block is harmless
				if f.Base == r.reorgTo {
					ob.OK("frozen exception: the zero block yields no transactions to re-add")
				} else {
					ob.Bad(nil, "the ok flag of the block lookup at %s is discarded and the block is used", c.P.Pos(call.Pos()))
				}
				continue
			}
			var okEdges []*cfgx.Edge
			for _, m := range g.Nodes {
				if m.AST == nil || m.Block == nil || m.Block.Cond != m.AST || len(m.Succs) != 2 {
					continue
				}
				w := f.ObjOf(m.AST.(ast.Expr))
				if w == nil {
					continue
				}
				if w == okv {
					okEdges = append(okEdges, m.Succs[0])
					continue
				}
				// a flag defined as a conjunction that includes the lookup's flag (`found := ok && ok2`)
				defs := ReachingDefs(f, w, m)
				if len(defs) != 1 || defs[0] == nil || defs[0].AST == nil {
					continue
				}
				for _, wr := range f.WritesIn(defs[0].AST, false) {
					if f.ObjOf(wr.LHS) == w && wr.RHS != nil && conjunctOf(f, wr.RHS, okv) {
						// the lookup's flag must not have been overwritten between that definition and this test
						fresh := true
						for _, d := range ReachingDefs(f, okv, defs[0]) {
							if d != n {
								fresh = false
							}
						}
						if fresh {
							okEdges = append(okEdges, m.Succs[0])
						}
					}
				}
			}
			bad := ""
			for _, m := range g.Nodes {
				if m == n || m.AST == nil || !f.MentionsObj(m.AST, false, blk) {
					continue
				}
				// (a bare declaration of the variable — reached again on the next iteration of a loop — reads nothing)
				if vs, isDecl := m.AST.(*ast.ValueSpec); isDecl && len(vs.Values) == 0 {
					continue
				}
				// (nor does a statement that only overwrites it as a whole: the zero a helper's failure return leaves)
				if as, isAssign := m.AST.(*ast.AssignStmt); isAssign {
					readsIt := false
					for _, r := range as.Rhs {
						if f.MentionsObj(r, false, blk) {
							readsIt = true
						}
					}
					for _, l := range as.Lhs {
						if _, isID := ast.Unparen(l).(*ast.Ident); !isID && f.MentionsObj(l, false, blk) {
							readsIt = true
						}
					}
					if !readsIt {
						continue
					}
				}
				// reached from this lookup without re-definition?
				isFromHere := false
				for _, d := range ReachingDefs(f, blk, m) {
					if d == n {
						isFromHere = true
					}
				}
				if !isFromHere {
					continue
				}
				// a further read-only store lookup keyed by a field of the block (parent state, ancestor
				// timestamp) processes nothing: its own result is only as good as this lookup's flag, which
				// every real use below still has to pass
				if isStoreProbe(f, m, blk) {
					continue
				}
				// forwarding (block, ok) together to the caller is a use under the caller's responsibility
				if _, isRet := m.AST.(*ast.ReturnStmt); isRet && f.MentionsObj(m.AST, false, okv) {
					continue
				}
				if !reachOnlyViaFrom(f, n, m, okEdges) {
					bad = c.P.Pos(m.Pos()) + fmt.Sprintf(" (%T)", m.AST)
				}
			}
			// MinReorgIndex-style probes use only the flag; blocks used in `ok1 && ok2`-guarded bodies are covered by the edges
			ob.Check(bad == "", nil, "the block obtained at %s is used at %s on a path where the lookup may have failed (pruned or unknown block): a zero block is processed instead of an error being returned", c.P.Pos(call.Pos()), bad)
		}
	}
}

// conjunctOf: e is v, or a conjunction one of whose operands is v.
func conjunctOf(f *ir.Func, e ast.Expr, v types.Object) bool {
	e = ast.Unparen(e)
	if f.ObjOf(e) == v {
		return true
	}
	if be, ok := e.(*ast.BinaryExpr); ok && be.Op == token.LAND {
		return conjunctOf(f, be.X, v) || conjunctOf(f, be.Y, v)
	}
	return false
}

// isStoreProbe: node m is `x, ok := <store>.<Getter>(… blk.field …)` — a call of a
// chain.Store method whose last result is a bool, with blk mentioned only inside its operands.
func isStoreProbe(f *ir.Func, m *cfgx.Node, blk types.Object) bool {
	as, ok := m.AST.(*ast.AssignStmt)
	if !ok || len(as.Rhs) != 1 {
		return false
	}
	call, ok := ast.Unparen(as.Rhs[0]).(*ast.CallExpr)
	if !ok {
		return false
	}
	fn := f.Callee(call)
	if fn == nil {
		return false
	}
	sig := fn.Type().(*types.Signature)
	if sig.Recv() == nil || !ir.IsNamed(sig.Recv().Type(), ir.PkgPath("chain"), "Store") {
		return false
	}
	res := sig.Results()
	if res.Len() < 2 {
		return false
	}
	if b, ok := res.At(res.Len() - 1).Type().Underlying().(*types.Basic); !ok || b.Kind() != types.Bool {
		return false
	}
	for _, l := range as.Lhs {
		if f.MentionsObj(l, false, blk) {
			return false
		}
	}
	return true
}

// reachOnlyViaFrom: every path from node `from` to node `to` crosses one of edges.
func reachOnlyViaFrom(f *ir.Func, from, to *cfgx.Node, edges []*cfgx.Edge) bool {
	cut := map[*cfgx.Edge]bool{}
	for _, e := range edges {
		cut[e] = true
	}
	var st []*cfgx.Visit
	for _, e := range from.Succs {
		st = append(st, cfgx.StartAfter(e, 0))
	}
	vs := f.ExploreFeasible(st, cfgx.Walker{
		AtNode: func(n *cfgx.Node, s cfgx.State) (cfgx.State, bool) { return s, n != from },
		OnEdge: func(e *cfgx.Edge, s cfgx.State) (cfgx.State, bool) { return s, !cut[e] },
	})
	for _, v := range vs {
		if v.Node == to {
			return false
		}
	}
	return true
}

// c19r3: the minimum-reorg-index method walks back from the tip while block *bodies* exist.
func c19r3(c *Ctx) {
	r := getChainRoles(c.P)
	header := c.P.Method("chain", "Store", "Header")
	bestIndex := c.P.Method("chain", "Store", "BestIndex")
	n := 0
	for _, f := range r.methodsV {
		if !exported(f) || f.Type.Params.NumFields() != 0 || f.Type.Results == nil || f.Type.Results.NumFields() != 1 {
			continue
		}
		if !ir.IsNamed(f.Info().TypeOf(f.Type.Results.List[0].Type), ir.PkgPath("types"), "ChainIndex") {
			continue
		}
		// a loop that looks up BestIndex
		var loop *ast.ForStmt
		ir.Walk(f.Body, false, func(x ast.Node) {
			if fs, ok := x.(*ast.ForStmt); ok && len(f.CallsIn(fs.Body, false)) > 0 {
				for _, call := range f.CallsIn(fs.Body, false) {
					if call.Fn == bestIndex.Origin() {
						loop = fs
					}
				}
			}
		})
		if loop == nil {
			continue
		}
		n++
		g := f.Graph()
		c.VisitGraph(f)
		ob := c.Ob(f, "walks-back-while-bodies-exist", loop.Pos())
		// a Store.Block lookup inside the loop whose ok flag leads to leaving the loop
		good := false
		for _, call := range f.CallsIn(loop.Body, false) {
			if call.Fn != r.storeBlock.Origin() {
				continue
			}
			node := g.NodeContaining(call.Pos())
			as, ok := node.AST.(*ast.AssignStmt)
			if !ok || len(as.Lhs) != 3 {
				continue
			}
			okv := f.ObjOf(as.Lhs[2])
			if okv == nil || okv.Name() == "_" {
				continue
			}
			// some leaf condition on okv has an edge that leaves the loop
			for _, m := range g.Nodes {
				if m.Block == nil || m.Block.Cond != m.AST || len(m.Succs) != 2 || f.ObjOf(m.AST.(ast.Expr)) != okv {
					continue
				}
				// the false edge (body missing) must not reach the statement that moves the index back
				reach := f.ReachableFromEdges([]*cfgx.Edge{m.Succs[1]}, nil)
				stays := false
				for x := range reach {
					if x.AST != nil && containsNode(loop.Body, x.AST) {
						if _, isBranch := x.AST.(*ast.BranchStmt); !isBranch {
							// nodes of the loop body reachable after "missing": only allowed via leaving; a reachable assignment means the walk continues
							for _, w := range f.WritesIn(x.AST, false) {
								_ = w
								stays = true
							}
						}
					}
				}
				if !stays {
					good = true
				}
			}
		}
		usesHeader := false
		for _, call := range f.CallsIn(loop.Body, false) {
			if call.Fn == header.Origin() {
				usesHeader = true
			}
		}
		switch {
		case good:
			ob.OK("the walk stops at the first height whose body is missing")
		case usesHeader:
			ob.Bad(nil, "the walk-back loop tests Store.Header instead of the block body: pruned blocks keep a header-only record, so the reported minimum reorg index lies below the prune boundary and promised reorgs fail")
		default:
			ob.Bad(nil, "the walk-back loop does not stop at the first height whose block body (Store.Block) is missing")
		}
	}
	if n == 0 {
		ir.Fail("no parameterless Manager method returning a ChainIndex that walks the best-chain index found")
	}
}

// c19r5: pruning keeps a header-only record of every block, and blocks far behind
// the tip are exactly the ones that get pruned. The store's ancestor-timestamp
// lookup (needed to validate and apply every new block before the Oak hardfork
// height) must therefore be answerable from such a record: it must not go
// through the body-requiring block getter, which reports "not found" for a
// pruned block and would stop the pruned node from accepting any block.
func c19r5(c *Ctx) {
	blockGetter := c.P.Fn("chain", "DBStore", "Block")
	storeBlock := c.P.Method("chain", "Store", "Block")
	n := 0
	vs := c.P.Views("chain", ir.ExpandOpt{Key: "store-ancestor", Stop: func(fn *types.Func) bool { return fn == blockGetter.Obj }})
	for _, raw := range c.P.MethodsOf("chain", "DBStore") {
		if !exported(raw) || raw.Type.Results == nil || raw.Type.Results.NumFields() != 2 {
			continue
		}
		res := raw.Obj.Type().(*types.Signature).Results()
		if !ir.IsNamed(res.At(0).Type(), "time", "Time") || !isBasicKind(types.Bool)(res.At(1).Type()) {
			continue
		}
		f := vs.Of(raw)
		n++
		c.VisitGraph(f)
		ob := c.Ob(f, "ancestor-timestamp-from-header-record", f.Body.Pos())
		calls := f.CallsTo(true, blockGetter.Obj, storeBlock)
		pos := ""
		if len(calls) > 0 {
			pos = c.P.Pos(calls[0].Pos())
		}
		ob.Check(len(calls) == 0, nil, "%s obtains the timestamp through the block getter at %s, which needs the block's body: for a pruned (header-only) ancestor it reports not-found, and a pruned node below the Oak height can no longer validate or apply any block", f.Name(), pos)
	}
	if n == 0 {
		ir.Fail("the store's ancestor-timestamp method (exported DBStore method returning (time.Time, bool)) not found")
	}
	// the header getter likewise: a record whose body is gone still has its header. No "not found" answer may depend
	// on the body pointer being nil.
	hn := 0
	for _, raw := range c.P.MethodsOf("chain", "DBStore") {
		if !exported(raw) || raw.Type.Results == nil || raw.Type.Results.NumFields() != 2 {
			continue
		}
		res := raw.Obj.Type().(*types.Signature).Results()
		if !ir.IsNamed(res.At(0).Type(), ir.PkgPath("types"), "BlockHeader") || !isBasicKind(types.Bool)(res.At(1).Type()) {
			continue
		}
		f := vs.Of(raw)
		hn++
		c.VisitGraph(f)
		ob := c.Ob(f, "header-served-from-header-only-record", f.Body.Pos())
		if calls := f.CallsTo(true, blockGetter.Obj, storeBlock); len(calls) > 0 {
			ob.Bad(nil, "%s obtains the header through the block getter at %s, which reports not-found for a pruned block: header serving and reorg paths through the pruned range break", f.Name(), c.P.Pos(calls[0].Pos()))
			continue
		}
		g := f.Graph()
		var nilBody []*cfgx.Edge
		for _, m := range g.Nodes {
			if m.Block == nil || m.Block.Cond != m.AST || len(m.Succs) != 2 {
				continue
			}
			x, nonNilOnTrue, ok := f.NilTest(m.AST.(ast.Expr))
			if !ok {
				continue
			}
			pt, isPtr := f.TypeOf(x).(*types.Pointer)
			if !isPtr || !ir.IsNamed(pt.Elem(), ir.PkgPath("types"), "Block") {
				continue
			}
			if nonNilOnTrue {
				nilBody = append(nilBody, m.Succs[1])
			} else {
				nilBody = append(nilBody, m.Succs[0])
			}
		}
		bad := ""
		for nd := range f.ReachableFromEdges(nilBody, nil) {
			rs, isRet := nd.AST.(*ast.ReturnStmt)
			if !isRet || len(rs.Results) != 2 {
				continue
			}
			if tv, ok := f.Info().Types[rs.Results[1]]; ok && tv.Value != nil && tv.Value.String() == "false" {
				bad = c.P.Pos(rs.Pos())
			}
		}
		ob.Check(bad == "", nil, "%s answers not-found at %s because the record's body is nil: pruned blocks keep their header, and the syncer's header RPC and reorg paths through the pruned range rely on it", f.Name(), bad)
	}
	if hn == 0 {
		ir.Fail("the store's header getter (exported DBStore method returning (types.BlockHeader, bool)) not found")
	}
}

// recordCleared: the single argument of the write is a struct value whose fields of type *types.Block and
// *consensus.V1BlockSupplement are nil when the call is made: a literal that leaves them out (or sets them to nil), or
// a local whose fields are assigned nil at a point that every path to the call passes, with no later write to them.
func recordCleared(f *ir.Func, call ir.Call) bool {
	isBody := func(t types.Type) bool {
		pt, ok := t.(*types.Pointer)
		return ok && (ir.IsNamed(pt.Elem(), ir.PkgPath("types"), "Block") || ir.IsNamed(pt.Elem(), ir.PkgPath("consensus"), "V1BlockSupplement"))
	}
	arg := ast.Unparen(call.Expr.Args[0])
	st, ok := f.TypeOf(arg).Underlying().(*types.Struct)
	if !ok {
		return false
	}
	var bodies []*types.Var
	for i := 0; i < st.NumFields(); i++ {
		if isBody(st.Field(i).Type()) {
			bodies = append(bodies, st.Field(i))
		}
	}
	if len(bodies) == 0 {
		return false
	}
	if cl, ok := arg.(*ast.CompositeLit); ok {
		for _, el := range cl.Elts {
			kv, isKV := el.(*ast.KeyValueExpr)
			if !isKV {
				return false // positional literal: all fields given
			}
			k, _ := kv.Key.(*ast.Ident)
			for _, b := range bodies {
				if k != nil && k.Name == b.Name() && !f.IsNil(kv.Value) {
					return false
				}
			}
		}
		return true
	}
	rec := f.ObjOf(arg)
	if rec == nil {
		return false
	}
	g := f.Graph()
	at := g.NodeContaining(call.Pos())
	for _, b := range bodies {
		cleared := false
		for _, n := range g.Nodes {
			if n.AST == nil || n == at {
				continue
			}
			for _, w := range f.WritesIn(n.AST, false) {
				sel, ok := ast.Unparen(w.LHS).(*ast.SelectorExpr)
				if !ok || f.ObjOf(sel.X) != rec || f.FieldOf(sel) != b || w.RHS == nil || !f.IsNil(w.RHS) {
					continue
				}
				if !g.DominatedByNode(at, n) {
					continue
				}
				// nothing rewrites the field or the record between the clearing and the write
				dirty := false
				for m := range pathNodesBetween(g, n, at) {
					if m.AST == nil || m == n {
						continue
					}
					for _, w2 := range f.WritesIn(m.AST, false) {
						if f.ObjOf(rootOfLvalue(w2.LHS)) == rec && !(w2.RHS != nil && f.IsNil(w2.RHS)) {
							dirty = true
						}
					}
				}
				if !dirty {
					cleared = true
				}
			}
		}
		if !cleared {
			return false
		}
	}
	return true
}
