package rules

import (
	"go/ast"
	"go/types"

	"sialint/internal/cfgx"
	"sialint/internal/ir"
)

// chainRoles resolves the functions of chain.Manager by what they do rather
// than by how they are spelled.
type chainRoles struct {
	p                                            *ir.Prog
	storeApply, storeRevert, storeFlush          *types.Func // chain.Store interface methods
	storeAddBlock, storeAddState                 *types.Func
	storeBlock, storeState, storePrune           *types.Func
	applyTip, revertTip, reorgTo                 *ir.Func
	validateBlock, validateOrphan                *types.Func
	applyBlockFn, revertBlockFn                  *types.Func // consensus.ApplyBlock / RevertBlock
	tipState, store, txpool, onReorg, onPool, mu *types.Var
	methods                                      []*ir.Func
	vs                                           *ir.ViewSet // chain's functions with helpers expanded, role functions kept as calls
	methodsV                                     []*ir.Func  // views of the Manager methods that are not absorbed by their callers
	stop                                         func(*types.Func) bool
}

func getChainRoles(p *ir.Prog) *chainRoles {
	r := &chainRoles{p: p}
	r.storeApply = p.Method("chain", "Store", "ApplyBlock")
	r.storeRevert = p.Method("chain", "Store", "RevertBlock")
	r.storeFlush = p.Method("chain", "Store", "Flush")
	r.storeAddBlock = p.Method("chain", "Store", "AddBlock")
	r.storeAddState = p.Method("chain", "Store", "AddState")
	r.storeBlock = p.Method("chain", "Store", "Block")
	r.storeState = p.Method("chain", "Store", "State")
	r.storePrune = p.Method("chain", "Store", "PruneBlock")
	r.validateBlock = p.FuncObj("consensus", "ValidateBlock")
	r.validateOrphan = p.FuncObj("consensus", "ValidateOrphan")
	r.applyBlockFn = p.FuncObj("consensus", "ApplyBlock")
	r.revertBlockFn = p.FuncObj("consensus", "RevertBlock")
	r.tipState = p.FieldOr("chain", "Manager", "tipState", isNamedT("consensus", "State"))
	r.store = p.FieldOr("chain", "Manager", "store", isNamedT("chain", "Store"))
	r.txpool = p.FieldOr("chain", "Manager", "txpool", func(t types.Type) bool { _, ok := t.(*types.Struct); return ok })
	r.onReorg = p.FieldOr("chain", "Manager", "onReorg", mapOfFunc(1))
	r.onPool = p.FieldOr("chain", "Manager", "onPool", mapOfFunc(0))
	r.mu = p.FieldOr("chain", "Manager", "mu", func(t types.Type) bool { return ir.IsNamed(t, "sync", "Mutex") })
	r.methods = p.MethodsOf("chain", "Manager")
	for _, f := range r.methods {
		if len(f.CallsTo(false, r.storeApply)) > 0 {
			if r.applyTip != nil {
				ir.Fail("more than one Manager method calls Store.ApplyBlock")
			}
			r.applyTip = f
		}
		if len(f.CallsTo(false, r.storeRevert)) > 0 {
			if r.revertTip != nil {
				ir.Fail("more than one Manager method calls Store.RevertBlock")
			}
			r.revertTip = f
		}
	}
	if r.applyTip == nil || r.revertTip == nil {
		ir.Fail("Manager methods calling Store.ApplyBlock / Store.RevertBlock not found")
	}
	for _, f := range r.methods {
		if len(f.CallsTo(false, r.applyTip.Obj)) > 0 && len(f.CallsTo(false, r.revertTip.Obj)) > 0 {
			r.reorgTo = f
		}
	}
	if r.reorgTo == nil {
		ir.Fail("Manager method walking the tip (calls both the apply and the revert step) not found")
	}
	// functions the rules treat as units stay calls in every view: the three tip steps and, where they can be
	// resolved, the rebasing method, the reorg-path method, the proof updater and the pool revalidation step
	roles := map[*types.Func]bool{r.applyTip.Obj: true, r.revertTip.Obj: true, r.reorgTo.Obj: true}
	cx := &Ctx{P: p}
	for _, find := range []func() *ir.Func{
		func() *ir.Func { return rebaseFn(cx) },
		func() *ir.Func { return reorgPathFn(cx) },
		func() *ir.Func { return proofUpdaterFn(cx) },
		func() *ir.Func { return revalidateFn(cx, getPoolFields(p)) },
	} {
		func() {
			defer func() { _ = recover() }() // a role that does not resolve is reported by the rule that needs it
			if f := find(); f != nil && f.Obj != nil {
				roles[f.Obj] = true
			}
		}()
	}
	r.vs = p.Views("chain", ir.ExpandOpt{Key: "chain-roles", Stop: func(fn *types.Func) bool { return roles[fn] }})
	r.stop = func(fn *types.Func) bool { return roles[fn] }
	for _, f := range r.methods {
		if v := r.vs.Of(f); !r.vs.Absorbed[f] {
			r.methodsV = append(r.methodsV, v)
		}
	}
	return r
}

// view returns f with its unexported helpers expanded (role functions stay calls).
func (r *chainRoles) view(f *ir.Func) *ir.Func { return r.vs.Of(f) }

// gatedCallers lists the functions of the package (other than the walker
// itself) that call the tip walker, directly or through helpers: each is
// returned as its expanded view, and helpers absorbed by their callers are
// not listed on their own.
func (r *chainRoles) gatedCallers() []*ir.Func {
	var out []*ir.Func
	for _, v := range r.vs.Roots {
		if v.Base != r.reorgTo && len(v.CallsTo(true, r.reorgTo.Obj)) > 0 {
			out = append(out, v)
		}
	}
	return out
}

// heavierEdges returns the true edges of `X.SufficientlyHeavierThan(m.tipState)` conditions and X.
func (r *chainRoles) heavierEdges(f *ir.Func) (edges []*cfgx.Edge, subjects []types.Object) {
	for _, call := range f.Calls(false) {
		if call.Fn == nil || call.Fn.Name() != "SufficientlyHeavierThan" || len(call.Expr.Args) != 1 {
			continue
		}
		if f.FieldOf(call.Expr.Args[0]) != r.tipState {
			continue
		}
		t, _ := boolCallEdges(f, call.Expr)
		edges = append(edges, t...)
		subjects = append(subjects, f.ObjOf(call.Recv()))
	}
	return
}

// isIndexOf reports whether e is `obj.Index`.
func isIndexOf(f *ir.Func, e ast.Expr, obj types.Object) bool {
	return isFieldOfObj(f, e, obj, "Index")
}

// methodsWithDefers: like methodsV, with deferred calls made explicit before every return.
func (r *chainRoles) methodsWithDefers() []*ir.Func {
	vs := r.p.Views("chain", ir.ExpandOpt{Key: "chain-roles+defers", Stop: r.stop, Defers: true})
	var out []*ir.Func
	for _, f := range r.methods {
		if !vs.Absorbed[f] {
			out = append(out, vs.Of(f))
		}
	}
	return out
}
