package rules

import (
	"go/ast"
	"go/types"

	"sialint/internal/cfgx"
	"sialint/internal/ir"
)

// chainRoles resolves the functions of chain.Manager by what they do rather
// than by how they are spelled.
type chainRoles struct {
	p                                            *ir.Prog
	storeApply, storeRevert, storeFlush          *types.Func // chain.Store interface methods
	storeAddBlock, storeAddState                 *types.Func
	storeBlock, storeState, storePrune           *types.Func
	applyTip, revertTip, reorgTo                 *ir.Func
	validateBlock, validateOrphan                *types.Func
	applyBlockFn, revertBlockFn                  *types.Func // consensus.ApplyBlock / RevertBlock
	tipState, store, txpool, onReorg, onPool, mu *types.Var
	methods                                      []*ir.Func
	vs                                           *ir.ViewSet // chain's functions with helpers expanded, role functions kept as calls
	methodsV                                     []*ir.Func  // views of the Manager methods that are not absorbed by their callers
	stop                                         func(*types.Func) bool
}

func getChainRoles(p *ir.Prog) *chainRoles {
	r := &chainRoles{p: p}
	r.storeApply = p.Method("chain", "Store", "ApplyBlock")
	r.storeRevert = p.Method("chain", "Store", "RevertBlock")
	r.storeFlush = p.Method("chain", "Store", "Flush")
	r.storeAddBlock = p.Method("chain", "Store", "AddBlock")
	r.storeAddState = p.Method("chain", "Store", "AddState")
	r.storeBlock = p.Method("chain", "Store", "Block")
	r.storeState = p.Method("chain", "Store", "State")
	r.storePrune = p.Method("chain", "Store", "PruneBlock")
	r.validateBlock = p.FuncObj("consensus", "ValidateBlock")
	r.validateOrphan = p.FuncObj("consensus", "ValidateOrphan")
	r.applyBlockFn = p.FuncObj("consensus", "ApplyBlock")
	r.revertBlockFn = p.FuncObj("consensus", "RevertBlock")
	r.tipState = p.FieldOr("chain", "Manager", "tipState", isNamedT("consensus", "State"))
	r.store = p.FieldOr("chain", "Manager", "store", isNamedT("chain", "Store"))
	r.txpool = p.FieldOr("chain", "Manager", "txpool", func(t types.Type) bool { _, ok := t.(*types.Struct); return ok })
	r.onReorg = p.FieldOr("chain", "Manager", "onReorg", mapOfFunc(1))
	r.onPool = p.FieldOr("chain", "Manager", "onPool", mapOfFunc(0))
	r.mu = p.FieldOr("chain", "Manager", "mu", func(t types.Type) bool { return ir.IsNamed(t, "sync", "Mutex") })
	r.methods = p.MethodsOf("chain", "Manager")
	// the apply step, the revert step and the tip walker are the smallest Manager methods whose own expansion
	// (helpers expanded into them) contains every call of Store.ApplyBlock, of Store.RevertBlock, and of both
	r.applyTip = smallestUnitCovering(p, r.methods, r.storeApply)
	r.revertTip = smallestUnitCovering(p, r.methods, r.storeRevert)
	if r.applyTip == nil || r.revertTip == nil {
		ir.Fail("Manager methods performing Store.ApplyBlock / Store.RevertBlock not found")
	}
	// (the walker is also the unit that commits: a single-step helper that merely dispatches to the apply or the
	// revert step covers both store calls but no flush)
	r.reorgTo = smallestUnitCovering(p, r.methods, r.storeApply, r.storeRevert, r.storeFlush)
	if r.reorgTo == nil || r.reorgTo == r.applyTip || r.reorgTo == r.revertTip {
		r.reorgTo = smallestUnitCovering(p, r.methods, r.storeApply, r.storeRevert)
	}
	if r.reorgTo == nil || r.reorgTo == r.applyTip || r.reorgTo == r.revertTip {
		ir.Fail("Manager method walking the tip (performs both the apply and the revert step) not found")
	}
	// functions the rules treat as units stay calls in every view: the three tip steps and, where they can be
	// resolved, the rebasing method, the reorg-path method, the proof updater and the pool revalidation step
	roles := map[*types.Func]bool{r.applyTip.Obj: true, r.revertTip.Obj: true, r.reorgTo.Obj: true}
	cx := &Ctx{P: p}
	for _, find := range []func() *ir.Func{
		func() *ir.Func { return rebaseFn(cx) },
		func() *ir.Func { return reorgPathFn(cx) },
		func() *ir.Func { return proofUpdaterFn(cx) },
		func() *ir.Func { return revalidateFn(cx, getPoolFields(p)) },
		func() *ir.Func { return poolUpdateFn(r, p.Named("consensus", "ApplyUpdate")) },
		func() *ir.Func { return poolUpdateFn(r, p.Named("consensus", "RevertUpdate")) },
	} {
		func() {
			defer func() { _ = recover() }() // a role that does not resolve is reported by the rule that needs it
			if f := find(); f != nil && f.Obj != nil {
				roles[f.Obj] = true
			}
		}()
	}
	r.vs = p.Views("chain", ir.ExpandOpt{Key: "chain-roles", Stop: func(fn *types.Func) bool { return roles[fn] }})
	r.stop = func(fn *types.Func) bool { return roles[fn] }
	for _, f := range r.methods {
		if v := r.vs.Of(f); !r.vs.Absorbed[f] {
			r.methodsV = append(r.methodsV, v)
		}
	}
	return r
}

// view returns f with its unexported helpers expanded (role functions stay calls).
func (r *chainRoles) view(f *ir.Func) *ir.Func { return r.vs.Of(f) }

// gatedCallers lists the functions of the package (other than the walker
// itself) that call the tip walker, directly or through helpers: each is
// returned as its expanded view, and helpers absorbed by their callers are
// not listed on their own.
func (r *chainRoles) gatedCallers() []*ir.Func {
	var out []*ir.Func
	for _, v := range r.vs.Roots {
		if v.Base != r.reorgTo && len(v.CallsTo(true, r.reorgTo.Obj)) > 0 {
			out = append(out, v)
		}
	}
	return out
}

// heavierEdges returns the true edges of `X.SufficientlyHeavierThan(m.tipState)` conditions and X.
func (r *chainRoles) heavierEdges(f *ir.Func) (edges []*cfgx.Edge, subjects []types.Object) {
	for _, call := range f.Calls(false) {
		if call.Fn == nil || call.Fn.Name() != "SufficientlyHeavierThan" || len(call.Expr.Args) != 1 {
			continue
		}
		if f.FieldOf(call.Expr.Args[0]) != r.tipState {
			continue
		}
		t, _ := boolCallEdges(f, call.Expr)
		edges = append(edges, t...)
		subjects = append(subjects, f.ObjOf(call.Recv()))
	}
	return
}

// isIndexOf reports whether e is `obj.Index`.
func isIndexOf(f *ir.Func, e ast.Expr, obj types.Object) bool {
	return isFieldOfObj(f, e, obj, "Index")
}

// methodsWithDefers: like methodsV, with deferred calls made explicit before every return.
func (r *chainRoles) methodsWithDefers() []*ir.Func {
	vs := r.p.Views("chain", ir.ExpandOpt{Key: "chain-roles+defers", Stop: r.stop, Defers: true})
	var out []*ir.Func
	for _, f := range r.methods {
		if !vs.Absorbed[f] {
			out = append(out, vs.Of(f))
		}
	}
	return out
}

// smallestUnitCovering returns the function among cands whose own expansion
// (its callees and closures expanded into it, nothing held back) contains every
// call site that any of cands makes to each of the targets, choosing the
// smallest such function; nil if there is none.
func smallestUnitCovering(p *ir.Prog, cands []*ir.Func, targets ...*types.Func) *ir.Func {
	// raw call sites per target
	sites := make([]map[ast.Node]bool, len(targets))
	for i, t := range targets {
		sites[i] = map[ast.Node]bool{}
		for _, f := range cands {
			for _, call := range f.CallsTo(true, t) {
				sites[i][call.Expr] = true
			}
		}
		if len(sites[i]) == 0 {
			return nil
		}
	}
	var best *ir.Func
	bestSize := 0
	for _, f := range cands {
		v := p.Expand(f, ir.ExpandOpt{Key: "unit"})
		ok := true
		for i, t := range targets {
			seen := map[ast.Node]bool{}
			for _, call := range v.CallsTo(true, t) {
				seen[p.OrigNode(call.Expr)] = true
			}
			for site := range sites[i] {
				if !seen[site] {
					ok = false
				}
			}
		}
		if !ok {
			continue
		}
		if size := len(v.Graph().Nodes); best == nil || size < bestSize {
			best, bestSize = f, size
		}
	}
	return best
}

// poolUpdateFn: the unexported Manager method with parameters (<update type>, consensus.State) that moves the
// pool's proofs when a block is applied / reverted.
func poolUpdateFn(r *chainRoles, upd *types.Named) *ir.Func {
	csT := r.p.Named("consensus", "State")
	for _, f := range r.methods {
		if exported(f) || f.Type.Params == nil || f.Type.Params.NumFields() != 2 {
			continue
		}
		var ts []types.Type
		for _, fld := range f.Type.Params.List {
			for range fld.Names {
				ts = append(ts, f.Info().TypeOf(fld.Type))
			}
		}
		if len(ts) == 2 && types.Identical(ts[0], upd) && types.Identical(ts[1], csT) {
			return f
		}
	}
	return nil
}
