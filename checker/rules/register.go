package rules
