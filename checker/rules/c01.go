package rules

import (
	"go/ast"
	"go/token"
	"go/types"

	"sialint/internal/cfgx"
	"sialint/internal/ir"
)

func init() {
	Explanations["C01"] = "Decides structural necessary conditions of 'the best chain is valid, heaviest-known and never loses work' in chain.Manager (functions are identified by role: the method calling Store.ApplyBlock is the apply step, the one calling Store.RevertBlock the revert step, the one calling both steps the tip walker): (R1) Manager.tipState is assigned only in the apply/revert steps, after the store call; (R2) every call of the tip walker other than a rollback lies on the true edge of X.SufficientlyHeavierThan(m.tipState) and targets X.Index; (R3) from the error edge of a gated walker call every path to a return passes a rollback walker call whose target was loaded from m.tipState.Index before the first call, and all those returns carry an error; (R4) Store.ApplyBlock is reached only through the success edge of consensus.ValidateBlock(m.tipState, b, *bs) for the block fetched from the store, or through the branch where the stored supplement is non-nil; (R5) Store.AddBlock with a possibly non-nil supplement occurs only after that validation of the same block, or in the documented pre-validated entry; (R6) every access to store, tipState, txpool, onReorg, onPool in Manager methods happens with Manager.mu definitely held (lockset dataflow; unexported helpers inherit the join of their call sites; returned closures start unheld); (R7) outside the apply step and the pre-validated entry, Store.AddState/AddBlock for a submitted block lie on the success edge of consensus.ValidateOrphan for that block and on the passing side of the future-timestamp test; (R8) in the apply step Store.ApplyBlock is reached only on the side of a comparison that established block.ParentID == tipState.Index.ID. (R9) the element store's revert side is the algebraic inverse of its apply side class by class (same check as C02.R1): the supplement that a later ValidateBlock / ApplyBlock reads after a reorg is the one an independent replay would see. (R10) the store's revert step deletes (not overwrites) the best-chain index entry of the reverted height (same check as C03.R4 / C04.R4): after a failed reorg to a longer fork is rolled back, BestIndex above the tip reports nothing, as before. (R11) the store's zero-timestamp shortcut for the ancestor timestamp and core's read of that timestamp are both read as bounds on (parent height − HardforkOak.Height); the two regions must not meet; (R10/C02.R4/C03.R4 also) every path through the store's apply and revert steps passes the Height writer and the best-index writer. (R12) every completed iteration of the loop over a submitted batch assigns the variable handed to SufficientlyHeavierThan; (R13) the checks of C11.R2. NOT decided: consensus validity itself (core), work arithmetic, parent linkage and replay equality of the stored chain, behaviour for duplicated/orphan/mixed batches — these need execution."

	register(&Rule{ID: "C01.R1", Prop: "C01", Floor: 2, Doc: "tip-writer: tipState assigned only in the apply/revert steps after the store call", Run: c01r1})
	register(&Rule{ID: "C01.R2", Prop: "C01", Floor: 2, Doc: "reorg-gate: tip walker called only on the true edge of SufficientlyHeavierThan(m.tipState) for the same state", Run: c01r2})
	register(&Rule{ID: "C01.R3", Prop: "C01", Floor: 2, Doc: "rollback: a failed gated reorg is followed by a reorg back to the saved tip on every path, and returns an error", Run: c01r3})
	register(&Rule{ID: "C01.R4", Prop: "C01", Floor: 1, Doc: "validate-before-best: Store.ApplyBlock only after ValidateBlock succeeded or a stored supplement exists", Run: c01r4})
	register(&Rule{ID: "C01.R5", Prop: "C01", Floor: 3, Doc: "supplement implies validated: non-nil supplements are stored only after validation or in the pre-validated entry", Run: c01r5})
	register(&Rule{ID: "C01.R6", Prop: "C01", Floor: 60, Doc: "lock discipline: guarded Manager fields are accessed only with Manager.mu held", Run: c01r6})
	register(&Rule{ID: "C01.R8", Prop: "C01", Floor: 1, Doc: "parent linkage: the apply step applies only a block whose ParentID equals the tip's id", Run: c01r8})
	register(&Rule{ID: "C01.R9", Prop: "C01", Floor: 16, Doc: "the store's revert side is the inverse of its apply side (the supplements later validation reads are restored exactly)", Run: c02r1})
	register(&Rule{ID: "C01.R13", Prop: "C01", Floor: 1, Doc: "the states the pre-validated entry trusts are bound to their blocks: the checkpoint / header / id checks of the sync worker guard its success (same checks as C11.R2)", Run: c11r2})
	register(&Rule{ID: "C01.R12", Prop: "C01", Floor: 1, Doc: "the state the reorg gate compares is advanced in every completed iteration of the batch loop (also for blocks already stored)", Run: c01r12})
	register(&Rule{ID: "C01.R11", Prop: "C01", Floor: 1, Doc: "the store's zero-timestamp shortcut covers no height at which core reads the ancestor timestamp (bounds on height − Oak height derived from both comparisons)", Run: c01r11})
	register(&Rule{ID: "C01.R10", Prop: "C01", Floor: 1, Doc: "a rolled-back reorg leaves no best-chain entries behind: the store's revert step deletes the entry above the new tip", Run: func(c *Ctx) {
		s := getStoreRoles(c.P)
		ph, bw := bestIndexRoles(c, s)
		checkRevertRemovesEntry(c, s, ph, bw)
	}})
	register(&Rule{ID: "C01.R7", Prop: "C01", Floor: 2, Doc: "orphan gate: submitted blocks are stored only after ValidateOrphan and the future-timestamp test", Run: c01r7})
}

func c01r1(c *Ctx) {
	r := getChainRoles(c.P)
	for _, f := range r.vs.Roots {
		for _, fn := range append([]*ir.Func{f}, f.Lits...) {
			g := fn.Graph()
			for _, n := range g.Nodes {
				if n.AST == nil {
					continue
				}
				for _, w := range fn.WritesIn(n.AST, false) {
					if fn.FieldOf(w.LHS) != r.tipState {
						continue
					}
					c.VisitGraph(fn)
					ob := c.Ob(fn, "tipState-written-after-store-step", n.Pos())
					if fn.Base != r.applyTip && fn.Base != r.revertTip {
						ob.Bad(nil, "Manager.tipState is assigned at %s outside the apply/revert steps: the reported tip can diverge from what the store applied", c.P.Pos(n.Pos()))
						continue
					}
					var stepCalls []*cfgx.Node
					for _, call := range fn.CallsTo(false, r.storeApply, r.storeRevert) {
						stepCalls = append(stepCalls, g.NodeContaining(call.Pos()))
					}
					dom := false
					for _, sc := range stepCalls {
						if sc != n && g.DominatedByNode(n, sc) {
							dom = true
						}
					}
					ob.Check(dom, nil, "Manager.tipState is assigned at %s on a path that has not passed the Store.ApplyBlock/RevertBlock call", c.P.Pos(n.Pos()))
				}
			}
		}
	}
}

// gatedCalls classifies the walker calls in f into gated (target X.Index under X heavier) and rollback calls.
type walkerCall struct {
	call    ir.Call
	node    *cfgx.Node
	chk     ir.Check
	gated   bool
	subject types.Object
}

func walkerCalls(r *chainRoles, f *ir.Func) []walkerCall {
	edges, subjects := r.heavierEdges(f)
	var out []walkerCall
	for _, call := range f.CallsTo(false, r.reorgTo.Obj) {
		wc := walkerCall{call: call, node: f.Graph().NodeContaining(call.Pos()), chk: f.CheckOf(call.Expr)}
		for i, s := range subjects {
			if len(call.Expr.Args) == 1 && isIndexOf(f, call.Expr.Args[0], s) && f.OnlyVia(wc.node, edges[i:i+1]) {
				wc.gated, wc.subject = true, s
			}
		}
		out = append(out, wc)
	}
	return out
}

func isRollback(r *chainRoles, f *ir.Func, wc walkerCall, gated []walkerCall) bool {
	if len(wc.call.Expr.Args) != 1 {
		return false
	}
	o := origin(f, wc.call.Expr.Args[0])
	sel, ok := ast.Unparen(o).(*ast.SelectorExpr)
	if !ok || sel.Sel.Name != "Index" || f.FieldOf(sel.X) != r.tipState {
		return false
	}
	// the saved tip must have been loaded before a gated call, and this call sits on that call's error edge
	saved := f.ObjOf(wc.call.Expr.Args[0])
	if saved == nil {
		return false
	}
	defs := wholeDefs(f, saved)
	if len(defs) != 1 {
		return false
	}
	defNode := f.Graph().NodeContaining(defs[0].LHS.Pos())
	for _, g := range gated {
		if f.Graph().DominatedByNode(g.node, defNode) && f.OnlyVia(wc.node, g.chk.Fail) {
			return true
		}
	}
	return false
}

func c01r2(c *Ctx) {
	r := getChainRoles(c.P)
	for _, f := range r.gatedCallers() {
		c.VisitGraph(f)
		wcs := walkerCalls(r, f)
		var gated []walkerCall
		for _, wc := range wcs {
			if wc.gated {
				gated = append(gated, wc)
			}
		}
		for _, wc := range wcs {
			ob := c.Ob(f, "walker-call-gated", wc.call.Pos())
			switch {
			case wc.gated:
				ob.OK("on the true edge of %s.SufficientlyHeavierThan(m.tipState)", wc.subject.Name())
			case isRollback(r, f, wc, gated):
				ob.OK("rollback to the saved tip on the error edge of a gated call")
			default:
				ob.Bad(nil, "the tip is moved by the call at %s without the target's state being SufficientlyHeavierThan the current tip state (and it is not a rollback to a saved tip): the tip's work can decrease", c.P.Pos(wc.call.Pos()))
			}
		}
	}
}

func c01r3(c *Ctx) {
	r := getChainRoles(c.P)
	for _, f := range r.gatedCallers() {
		g := f.Graph()
		c.VisitGraph(f)
		wcs := walkerCalls(r, f)
		var gated []walkerCall
		for _, wc := range wcs {
			if wc.gated {
				gated = append(gated, wc)
			}
		}
		for _, gc := range gated {
			ob := c.Ob(f, "failed-reorg-rolled-back", gc.call.Pos())
			if len(gc.chk.Fail) == 0 {
				ob.Bad(nil, "the error of the gated reorg at %s is not tested", c.P.Pos(gc.call.Pos()))
				continue
			}
			isRB := func(n *cfgx.Node) bool {
				for _, wc := range wcs {
					if wc.node == n && !wc.gated && isRollback(r, f, wc, gated) {
						return true
					}
				}
				return false
			}
			reach := f.ReachableFromEdges(gc.chk.Fail, isRB)
			bad := false
			for _, ret := range g.Returns() {
				if v, ok := reach[ret]; ok {
					ob.Bad(c.Witness(v), "after the reorg at %s failed part-way, the return at %s is reachable without reorging back to the saved tip: tip, state and chain queries are left on a partially applied fork", c.P.Pos(gc.call.Pos()), c.P.Pos(ret.Pos()))
					bad = true
					break
				}
			}
			if bad {
				continue
			}
			// every return reachable from the failing edge carries an error
			all := f.ReachableFromEdges(gc.chk.Fail, nil)
			var from []*cfgx.Visit
			for _, e := range gc.chk.Fail {
				from = append(from, cfgx.StartAfter(e, 0))
			}
			kinds := f.ReturnKindsFrom(from) // per path: the error set by a (deferred) rollback wrapper is the one returned
			for _, ret := range g.Returns() {
				if v, ok := all[ret]; ok && kinds[ret]&^(1<<uint(ir.RetError)) != 0 {
					// is it reachable from the failing edge without crossing the success edge again? (loops do not exist here)
					ob.Bad(c.Witness(v), "after the reorg at %s failed, the return at %s does not carry an error: the caller is told the submission succeeded", c.P.Pos(gc.call.Pos()), c.P.Pos(ret.Pos()))
					bad = true
					break
				}
			}
			if !bad {
				ob.OK("every path from the error edge rolls back and returns an error")
			}
		}
	}
}

func c01r4(c *Ctx) {
	r := getChainRoles(c.P)
	f := r.view(r.applyTip)
	g := f.Graph()
	c.VisitGraph(f)
	for _, apply := range f.CallsTo(false, r.storeApply) {
		ob := c.Ob(f, "validated-or-supplemented", apply.Pos())
		an := g.NodeContaining(apply.Pos())
		// the block and supplement variables fetched from the store
		var blk, sup types.Object
		for _, bc := range f.CallsTo(false, r.storeBlock) {
			n := g.NodeContaining(bc.Pos())
			if as, ok := n.AST.(*ast.AssignStmt); ok && len(as.Lhs) == 3 {
				blk, sup = f.ObjOf(as.Lhs[0]), f.ObjOf(as.Lhs[1])
			}
		}
		if blk == nil || sup == nil {
			// the walker looks the pair up and hands it to the apply step: the step's parameters are the pair, provided
			// every caller passes what one Store.Block lookup returned
			bi, si := -1, -1
			k := 0
			if r.applyTip.Type.Params != nil {
				for _, fld := range r.applyTip.Type.Params.List {
					for _, nm := range fld.Names {
						t := f.Info().TypeOf(fld.Type)
						if ir.IsNamed(t, ir.PkgPath("types"), "Block") {
							if _, isPtr := t.(*types.Pointer); !isPtr {
								blk, bi = f.Info().Defs[nm], k
							}
						}
						if ir.IsNamed(t, ir.PkgPath("consensus"), "V1BlockSupplement") {
							sup, si = f.Info().Defs[nm], k
						}
						k++
					}
				}
			}
			fromStore := bi >= 0 && si >= 0
			if fromStore {
				ncalls := 0
				for _, caller := range r.methodsV {
					for _, call := range caller.CallsTo(false, r.applyTip.Obj) {
						ncalls++
						if bi >= len(call.Expr.Args) || si >= len(call.Expr.Args) {
							fromStore = false
							continue
						}
						c1, i1 := tupleDef(caller, caller.ObjOf(call.Expr.Args[bi]))
						c2, i2 := tupleDef(caller, caller.ObjOf(call.Expr.Args[si]))
						if c1 == nil || c1 != c2 || i1 != 0 || i2 != 1 || caller.Callee(c1) != r.storeBlock {
							fromStore = false
						}
					}
				}
				if ncalls == 0 {
					fromStore = false
				}
			}
			if !fromStore {
				ob.Unknown("the apply step does not fetch (block, supplement) from Store.Block")
				continue
			}
		}
		var edges []*cfgx.Edge
		for _, vc := range f.CallsTo(false, r.validateBlock) {
			if len(vc.Expr.Args) == 3 && f.FieldOf(vc.Expr.Args[0]) == r.tipState && f.ObjOf(vc.Expr.Args[1]) == blk {
				edges = append(edges, f.CheckOf(vc.Expr).Succ...)
			}
		}
		nValidate := len(edges)
		for _, n := range g.Nodes {
			if n.Block == nil || n.Block.Cond != n.AST || len(n.Succs) != 2 {
				continue
			}
			if x, nonNilOnTrue, ok := f.NilTestVia(n.AST.(ast.Expr)); ok && f.ObjOf(x) == sup {
				if nonNilOnTrue {
					edges = append(edges, n.Succs[0])
				} else {
					edges = append(edges, n.Succs[1])
				}
			}
		}
		if nValidate == 0 {
			ob.Bad(nil, "the apply step never calls consensus.ValidateBlock(m.tipState, <stored block>, …): a first-seen block becomes part of the best chain unvalidated")
			continue
		}
		ob.Check(f.OnlyVia(an, edges), c.Witness(f.BypassWitness(an, edges)), "Store.ApplyBlock at %s is reachable on a path that neither passed consensus.ValidateBlock for the stored block nor found a stored supplement: an invalid block can become part of the best chain", c.P.Pos(apply.Pos()))
		// the update applied must come from consensus.ApplyBlock over the same block
		ob2 := c.Ob(f, "applies-update-of-validated-block", apply.Pos())
		good := true
		for _, ab := range f.CallsTo(false, r.applyBlockFn) {
			if len(ab.Expr.Args) < 2 || f.FieldOf(ab.Expr.Args[0]) != r.tipState || f.ObjOf(ab.Expr.Args[1]) != blk {
				good = false
			}
		}
		ob2.Check(good && len(f.CallsTo(false, r.applyBlockFn)) > 0, nil, "the update handed to Store.ApplyBlock is not consensus.ApplyBlock(m.tipState, <the validated block>, …)")
	}
}

// preValidatedEntry: the exported Manager method taking ([]types.Block, []consensus.State).
func preValidatedEntry(r *chainRoles) *ir.Func {
	for _, f := range r.methods {
		if !exported(f) || f.Type.Params == nil || len(f.Type.Params.List) != 2 {
			continue
		}
		t0, ok0 := f.Info().TypeOf(f.Type.Params.List[0].Type).(*types.Slice)
		t1, ok1 := f.Info().TypeOf(f.Type.Params.List[1].Type).(*types.Slice)
		if ok0 && ok1 && ir.IsNamed(t0.Elem(), ir.PkgPath("types"), "Block") && ir.IsNamed(t1.Elem(), ir.PkgPath("consensus"), "State") {
			return f
		}
	}
	return nil
}

func c01r5(c *Ctx) {
	r := getChainRoles(c.P)
	pre := preValidatedEntry(r)
	for _, f := range r.methodsV {
		for _, ab := range f.CallsTo(true, r.storeAddBlock) {
			c.VisitGraph(f)
			ob := c.Ob(f, "supplement-only-when-validated", ab.Pos())
			if len(ab.Expr.Args) != 2 {
				ob.Unknown("unexpected arity")
				continue
			}
			if f.IsNil(ab.Expr.Args[1]) {
				ob.OK("stored without supplement (to be validated when applied)")
				continue
			}
			switch f.Base {
			case pre:
				ob.OK("documented pre-validated entry (its only caller is constrained by C11.R1)")
			case r.applyTip:
				g := f.Graph()
				var edges []*cfgx.Edge
				for _, vc := range f.CallsTo(false, r.validateBlock) {
					if len(vc.Expr.Args) == 3 && f.ObjOf(vc.Expr.Args[1]) == f.ObjOf(ab.Expr.Args[0]) && f.ObjOf(ab.Expr.Args[0]) != nil {
						edges = append(edges, f.CheckOf(vc.Expr).Succ...)
					}
				}
				ob.Check(f.OnlyVia(g.NodeContaining(ab.Pos()), edges), nil, "a block is stored with a supplement at %s before (or without) consensus.ValidateBlock having succeeded for it: a stored supplement marks the block as validated, so an invalid block is later applied without validation", c.P.Pos(ab.Pos()))
			default:
				ob.Bad(nil, "%s stores a block with a possibly non-nil supplement: only the apply step (after validation) and the pre-validated entry may do that", f.Name())
			}
		}
	}
}

func c01r6(c *Ctx) {
	r := getChainRoles(c.P)
	ls := NewLocksetV(c.P, r.mu, r.methodsV, r.view)
	guarded := []*types.Var{r.store, r.tipState, r.txpool, r.onReorg, r.onPool}
	for _, m := range r.methodsV {
		for _, f := range append([]*ir.Func{m}, m.Lits...) {
			g := f.Graph()
			for _, n := range g.Nodes {
				if n.AST == nil {
					continue
				}
				var hit *types.Var
				for _, fld := range guarded {
					if f.MentionsField(n.AST, false, fld) {
						hit = fld
					}
				}
				if hit == nil {
					continue
				}
				c.Visit(1)
				ob := c.Ob(f, "under-mu:"+hit.Name(), n.Pos())
				st := ls.At(f, n)
				// a node that itself takes the lock before touching the field (never happens today) is not special-cased
				if st == lsHeld {
					ob.OK("held")
				} else {
					ob.Bad(nil, "Manager.%s is accessed at %s with Manager.mu %s (entry state of %s: %s): chain queries race with reorgs", hit.Name(), c.P.Pos(n.Pos()), st, f.Name(), ls.Entry(f))
				}
			}
		}
	}
}

func c01r7(c *Ctx) {
	r := getChainRoles(c.P)
	pre := preValidatedEntry(r)
	for _, f := range r.methodsV {
		if f.Base == r.applyTip || f.Base == pre {
			continue
		}
		adds := f.CallsTo(false, r.storeAddBlock, r.storeAddState)
		if len(adds) == 0 {
			continue
		}
		g := f.Graph()
		c.VisitGraph(f)
		for _, ad := range adds {
			ob := c.Ob(f, "after-orphan-validation:"+ad.Fn.Name(), ad.Pos())
			an := g.NodeContaining(ad.Pos())
			var edges []*cfgx.Edge
			var blk types.Object
			if ad.Fn == r.storeAddBlock.Origin() {
				blk = f.ObjOf(ad.Expr.Args[0])
			}
			for _, vo := range f.CallsTo(false, r.validateOrphan) {
				if len(vo.Expr.Args) != 2 {
					continue
				}
				if blk != nil && f.ObjOf(vo.Expr.Args[1]) != blk {
					continue
				}
				edges = append(edges, f.CheckOf(vo.Expr).Succ...)
			}
			if !f.OnlyVia(an, edges) {
				ob.Bad(nil, "%s at %s is reachable without consensus.ValidateOrphan having succeeded for the submitted block: headers without sufficient work or with bad linkage enter the store and can carry the tip", ad.Fn.Name(), c.P.Pos(ad.Pos()))
				continue
			}
			// future timestamp test: a condition calling MaxFutureTimestamp whose true edge cannot reach the store call
			fut := false
			for _, n := range g.Nodes {
				if n.Block == nil || n.Block.Cond != n.AST || len(n.Succs) != 2 {
					continue
				}
				has := false
				for _, call := range f.NodeCalls(n) {
					if call.Fn != nil && call.Fn.Name() == "MaxFutureTimestamp" {
						has = true
					}
				}
				if !has {
					continue
				}
				if f.OnlyVia(an, []*cfgx.Edge{n.Succs[1]}) {
					fut = true
				}
			}
			ob.Check(fut, nil, "%s at %s is reachable without the block having passed the future-timestamp test", ad.Fn.Name(), c.P.Pos(ad.Pos()))
		}
	}
}

// c01r8: the apply step only applies a block whose parent is the current tip.
func c01r8(c *Ctx) {
	r := getChainRoles(c.P)
	f := r.view(r.applyTip)
	g := f.Graph()
	c.VisitGraph(f)
	var blk types.Object
	for _, bc := range f.CallsTo(false, r.storeBlock) {
		if as, ok := g.NodeContaining(bc.Pos()).AST.(*ast.AssignStmt); ok && len(as.Lhs) == 3 {
			blk = f.ObjOf(as.Lhs[0])
		}
	}
	// (the walker may look the block up and hand it to the apply step: then the step's block parameter is the block)
	if blk == nil && r.applyTip.Type.Params != nil {
		for _, fld := range r.applyTip.Type.Params.List {
			if ir.IsNamed(f.Info().TypeOf(fld.Type), ir.PkgPath("types"), "Block") {
				for _, nm := range fld.Names {
					blk = f.Info().Defs[nm]
				}
			}
		}
	}
	for _, apply := range f.CallsTo(false, r.storeApply) {
		ob := c.Ob(f, "applied-block-attaches-to-tip", apply.Pos())
		var edges []*cfgx.Edge
		for _, n := range g.Nodes {
			if n.Block == nil || n.Block.Cond != n.AST || len(n.Succs) != 2 {
				continue
			}
			be, ok := ast.Unparen(n.AST.(ast.Expr)).(*ast.BinaryExpr)
			if !ok || (be.Op.String() != "!=" && be.Op.String() != "==") {
				continue
			}
			isParent := func(e ast.Expr) bool { return isFieldOfObj(f, e, blk, "ParentID") }
			isTipID := func(e ast.Expr) bool {
				sel, ok := ast.Unparen(e).(*ast.SelectorExpr)
				if !ok || sel.Sel.Name != "ID" {
					return false
				}
				idx, ok := ast.Unparen(sel.X).(*ast.SelectorExpr)
				return ok && idx.Sel.Name == "Index" && f.FieldOf(idx.X) == r.tipState
			}
			if (isParent(be.X) && isTipID(be.Y)) || (isParent(be.Y) && isTipID(be.X)) {
				if be.Op.String() == "!=" {
					edges = append(edges, n.Succs[1])
				} else {
					edges = append(edges, n.Succs[0])
				}
			}
		}
		ob.Check(blk != nil && f.OnlyVia(g.NodeContaining(apply.Pos()), edges), nil, "Store.ApplyBlock is reachable for a block whose ParentID was not compared with the current tip's id: a block that does not attach can be applied on top of the tip and the best chain stops being parent-linked")
	}
}

// c01r11: the store answers "ancestor timestamp" with a zero time, without looking anything up, for heights at which
// consensus no longer reads it (after the Oak hardfork). Both the condition under which core reads the timestamp and
// the condition of the store's shortcut compare the parent's height with HardforkOak.Height; written as bounds on
// d = parent height − Oak height (core reads ⇒ d ≤ R, shortcut ⇒ d ≥ L) the two regions must not meet: L > R. An
// off-by-one here hands core a zero timestamp for the retarget at the boundary: the node computes a different
// target than every other node (values are touched through comparisons and ±constants only, so the bounds are
// exact).
func c01r11(c *Ctx) {
	// linear reading of one side of a comparison: "height" + k, or "oak" + k
	var linear func(f *ir.Func, e ast.Expr, depth int) (kind string, k int64, ok bool)
	linear = func(f *ir.Func, e ast.Expr, depth int) (string, int64, bool) {
		e = ast.Unparen(e)
		if depth > 4 {
			return "", 0, false
		}
		switch t := e.(type) {
		case *ast.SelectorExpr:
			if t.Sel.Name != "Height" {
				return "", 0, false
			}
			if in, ok := ast.Unparen(t.X).(*ast.SelectorExpr); ok {
				switch in.Sel.Name {
				case "Index":
					return "height", 0, true
				case "HardforkOak":
					return "oak", 0, true
				}
			}
		case *ast.BinaryExpr:
			if t.Op != token.ADD && t.Op != token.SUB {
				return "", 0, false
			}
			if cv, isC := f.ConstInt(t.Y); isC {
				if kind, k, ok := linear(f, t.X, depth+1); ok {
					if t.Op == token.SUB {
						cv = -cv
					}
					return kind, k + cv, true
				}
			}
			if cv, isC := f.ConstInt(t.X); isC && t.Op == token.ADD {
				if kind, k, ok := linear(f, t.Y, depth+1); ok {
					return kind, k + cv, true
				}
			}
		case *ast.CallExpr:
			// a method that returns such an expression of its receiver (State.childHeight)
			if fn := f.Callee(t); fn != nil && len(t.Args) == 0 {
				if callee := c.P.DepFunc(fn); callee != nil {
					rets := callee.Graph().Returns()
					if len(rets) == 1 {
						if rs, ok := rets[0].AST.(*ast.ReturnStmt); ok && len(rs.Results) == 1 {
							return linear(callee, rs.Results[0], depth+1)
						}
					}
				}
			}
		case *ast.Ident:
			if o := origin(f, t); o != ast.Expr(t) {
				return linear(f, o, depth+1)
			}
		}
		return "", 0, false
	}
	// bound: on edge e of a comparison node, what is known about d = height − oak: lower (d ≥ v) or upper (d ≤ v)
	bound := func(f *ir.Func, e *cfgx.Edge) (lower bool, v int64, ok bool) {
		if e.Cond == nil || (e.Kind != cfgx.True && e.Kind != cfgx.False) {
			return false, 0, false
		}
		be, isBin := ast.Unparen(e.Cond).(*ast.BinaryExpr)
		if !isBin {
			return false, 0, false
		}
		ka, a, ok1 := linear(f, be.X, 0)
		kb, b, ok2 := linear(f, be.Y, 0)
		if !ok1 || !ok2 || ka == kb {
			return false, 0, false
		}
		op := be.Op
		if ka == "oak" { // oak + a OP height + b  ≡  height + b OP' oak + a
			a, b = b, a
			switch op {
			case token.LSS:
				op = token.GTR
			case token.GTR:
				op = token.LSS
			case token.LEQ:
				op = token.GEQ
			case token.GEQ:
				op = token.LEQ
			}
		}
		if e.Kind == cfgx.False {
			switch op {
			case token.LSS:
				op = token.GEQ
			case token.GTR:
				op = token.LEQ
			case token.LEQ:
				op = token.GTR
			case token.GEQ:
				op = token.LSS
			default:
				return false, 0, false
			}
		}
		// height + a OP oak + b  ⇔  d OP b − a
		switch op {
		case token.GTR:
			return true, b - a + 1, true
		case token.GEQ:
			return true, b - a, true
		case token.LSS:
			return false, b - a - 1, true
		case token.LEQ:
			return false, b - a, true
		}
		return false, 0, false
	}
	// core: where a time.Time parameter is read under a comparison with the Oak height
	var R *int64
	var where string
	var coreFuncs []*ir.Func
	cscope := c.P.Package("consensus").Types.Scope()
	for _, name := range cscope.Names() {
		if fo, ok := cscope.Lookup(name).(*types.Func); ok {
			if f := c.P.DepFunc(fo); f != nil {
				coreFuncs = append(coreFuncs, f)
			}
		}
	}
	for _, f := range coreFuncs {
		var tparams []types.Object
		if f.Type.Params != nil {
			for _, fld := range f.Type.Params.List {
				for _, nm := range fld.Names {
					if o := f.Info().Defs[nm]; o != nil && ir.IsNamed(o.Type(), "time", "Time") {
						tparams = append(tparams, o)
					}
				}
			}
		}
		if len(tparams) == 0 {
			continue
		}
		g := f.Graph()
		for _, n := range g.Nodes {
			if n.AST == nil {
				continue
			}
			reads := false
			for _, tp := range tparams {
				// a read other than handing the parameter on to another function
				ir.Walk(n.AST, false, func(x ast.Node) {
					if sel, ok := x.(*ast.SelectorExpr); ok && f.ObjOf(sel.X) == tp {
						reads = true
					}
					if call, ok := x.(*ast.CallExpr); ok {
						if sel, ok := ast.Unparen(call.Fun).(*ast.SelectorExpr); ok && f.Info().Selections[sel] != nil {
							for _, a := range call.Args {
								if f.ObjOf(a) == tp {
									reads = true // argument of a method of a library type (t.Sub(target))
								}
							}
						}
					}
				})
			}
			if !reads {
				continue
			}
			// the tightest upper bound on d among the comparison edges that dominate the read
			for _, m := range g.Nodes {
				if m.Block == nil || m.Block.Cond != m.AST || len(m.Succs) != 2 {
					continue
				}
				for _, e := range m.Succs {
					lower, v, ok := bound(f, e)
					if !ok || lower || !f.OnlyVia(n, []*cfgx.Edge{e}) {
						continue
					}
					c.VisitGraph(f)
					if R == nil || v < *R {
						v := v
						R, where = &v, c.P.Pos(m.Pos())
					}
				}
			}
		}
	}
	s := getStoreRoles(c.P)
	var at *ir.Func
	for _, m := range s.methods {
		if m.Obj.Name() == c.P.Method("chain", "Store", "AncestorTimestamp").Name() {
			at = m
		}
	}
	if at == nil {
		ir.Fail("DBStore implementation of Store.AncestorTimestamp not found")
	}
	at = c.P.Expand(at, ir.ExpandOpt{Key: "all"})
	g := at.Graph()
	c.VisitGraph(at)
	ob := c.Ob(at, "shortcut-only-where-core-ignores-the-timestamp", at.Body.Pos())
	if R == nil {
		ob.Unknown("core's condition for reading the ancestor timestamp (a comparison of the child height with HardforkOak.Height that dominates the read of a time.Time parameter) was not recognised")
		return
	}
	shortcuts := 0
	for _, r := range g.Returns() {
		rs, ok := r.AST.(*ast.ReturnStmt)
		if !ok || len(rs.Results) != 2 {
			continue
		}
		cl, isLit := ast.Unparen(rs.Results[0]).(*ast.CompositeLit)
		if !isLit || len(cl.Elts) != 0 || !ir.IsNamed(at.TypeOf(cl), "time", "Time") {
			continue
		}
		if id, ok := ast.Unparen(rs.Results[1]).(*ast.Ident); !ok || id.Name != "true" {
			continue
		}
		shortcuts++
		var L *int64
		for _, m := range g.Nodes {
			if m.Block == nil || m.Block.Cond != m.AST || len(m.Succs) != 2 {
				continue
			}
			for _, e := range m.Succs {
				lower, v, ok := bound(at, e)
				if !ok || !lower || !at.OnlyVia(r, []*cfgx.Edge{e}) {
					continue
				}
				if L == nil || v > *L {
					v := v
					L = &v
				}
			}
		}
		if L == nil {
			ob.Unknown("the zero-time return at %s is not guarded by a recognisable comparison of the block's height with HardforkOak.Height", c.P.Pos(r.Pos()))
			return
		}
		if *L <= *R {
			ob.Bad(nil, "the store returns a zero ancestor timestamp at %s for parent heights ≥ Oak%+d, but core (condition at %s) still reads the timestamp for parent heights ≤ Oak%+d: at the boundary the retarget is computed from the zero time, and this node's target differs from every other node's", c.P.Pos(r.Pos()), *L, where, *R)
			return
		}
	}
	ob.OK("%d shortcut return(s), all strictly above the last height at which core reads the timestamp", shortcuts)
}

// c01r12: the state handed to the reorg gate is the state of the *last* block of the submitted batch. The loop over
// the batch carries it in one variable; every iteration that completes — also the one for a block the store already
// has — assigns that variable, so that resubmitting known blocks above the tip (catch-up after a stop in the middle
// of a reorg, or after a rolled-back reorg) still moves the node onto them.
func c01r12(c *Ctx) {
	r := getChainRoles(c.P)
	n := 0
	for _, f := range r.gatedCallers() {
		g := f.Graph()
		seen := map[types.Object]bool{}
		for _, wc := range walkerCalls(r, f) {
			if !wc.gated || wc.subject == nil || seen[wc.subject] {
				continue
			}
			seen[wc.subject] = true
			subj := wc.subject
			// the state may be carried by a helper's own variable and handed over at its return (`cs, err = cs', nil`):
			// the variables whose value is copied whole into the subject count as the subject
			subjs := map[types.Object]bool{subj: true}
			for changed := true; changed; {
				changed = false
				for o := range subjs {
					for _, d := range wholeDefs(f, o) {
						if d.RHS == nil {
							continue
						}
						if src := f.ObjOf(ast.Unparen(d.RHS)); src != nil && !subjs[src] {
							if _, isVar := src.(*types.Var); isVar && types.Identical(src.Type(), subj.Type()) {
								subjs[src] = true
								changed = true
							}
						}
					}
				}
			}
			writes := func(nd *cfgx.Node) bool {
				if nd.AST == nil {
					return false
				}
				for _, w := range f.WritesIn(nd.AST, false) {
					if subjs[f.ObjOf(w.LHS)] {
						return true
					}
				}
				return false
			}
			var loops []ast.Stmt
			ir.Walk(f.Body, false, func(x ast.Node) {
				switch l := x.(type) {
				case *ast.RangeStmt:
					loops = append(loops, l)
				case *ast.ForStmt:
					loops = append(loops, l)
				}
			})
			for _, loop := range loops {
				var lbody *ast.BlockStmt
				switch l := loop.(type) {
				case *ast.RangeStmt:
					lbody = l.Body
				case *ast.ForStmt:
					lbody = l.Body
				}
				inBody := false
				var entries []*cfgx.Visit
				for _, nd := range g.Nodes {
					if nd.AST == nil || !containsNode(lbody, nd.AST) {
						continue
					}
					if writes(nd) {
						inBody = true
					}
					for _, p := range nd.Preds {
						// entered from the loop's own head (range / condition), not from the body or from outside the loop
						if p.From != nil && p.From.AST != nil && !containsNode(lbody, p.From.AST) && (containsNode(loop, p.From.AST) || p.From.AST == ast.Node(loop)) {
							entries = append(entries, cfgx.StartAfter(p, 0))
						}
					}
				}
				if !inBody {
					continue
				}
				n++
				c.VisitGraph(f)
				ob := c.Ob(f, "gate-state-advanced-every-iteration:"+subj.Name(), loop.Pos())
				if len(entries) == 0 {
					ob.Unknown("loop body edge not found")
					continue
				}
				// the stale state matters where it is used: by the next iteration, or by the gate after the loop (an
				// iteration that ends in an error leaves through the error exit; per-path flags tell)
				entryEdge := map[*cfgx.Edge]bool{}
				for _, v := range entries {
					entryEdge[v.Via] = true
				}
				gateNode := map[*cfgx.Node]bool{}
				hv, _ := r.heavierEdges(f)
				for _, e := range hv {
					gateNode[e.From] = true
				}
				var skip *cfgx.Visit
				for _, v := range f.ExploreFeasible(entries, cfgx.Walker{
					AtNode: func(nd *cfgx.Node, st cfgx.State) (cfgx.State, bool) {
						return st, !writes(nd) && !gateNode[nd]
					},
				}) {
					if v.Prev == nil || skip != nil || writes(v.Node) {
						continue
					}
					if gateNode[v.Node] || entryEdge[v.Via] {
						skip = v
					}
				}
				if skip != nil {
					ob.Bad(c.Witness(skip), "an iteration of the loop at %s can finish without assigning %s, the state the reorg gate compares with the tip: a batch of blocks the store already knows (resubmitted after a stop or a rolled-back reorg) is judged by a stale state and the node does not move onto it", c.P.Pos(loop.Pos()), subj.Name())
				} else {
					ob.OK("every completed iteration assigns the gate's state")
				}
			}
		}
	}
	if n == 0 {
		ir.Fail("no batch loop carrying the reorg gate's state found")
	}
}
