package rules

import (
	"go/ast"
	"go/token"
	"go/types"

	"sialint/internal/cfgx"
	"sialint/internal/ir"
)

func init() {
	Explanations["C13"] = "Decides structural necessary conditions of 'rebasing a v2 set yields proofs valid at the target, never panics, and leaves the caller's input alone' in the Manager's rebasing method (identified by its signature ([]V2Transaction, ChainIndex, ChainIndex)): (R1) the reorg-path computation and every proof update are reached only after the basis state was found and ValidateTransactionElements succeeded for every transaction of the set (loop-guard rule); (R2) no write and no pointer handed to the proof updater reaches memory derived from the parameter — only values that passed DeepCopy are modified; (R3) every dereference of a block supplement obtained from the store in Manager methods is dominated by a non-nil test or a fresh allocation, so a pruned or unvalidated block yields an error, not a panic; (R4) outside the tip walker the reorg-path bound is a finite integer constant; (R5) the exported set-assembly methods (those using the output→transaction parent map) revalidate the pool before reading it, so confirmed transactions are never offered as unconfirmed parents; (R6) the proof updater compares an element's leaf index with the accumulator size only after excluding the ephemeral sentinel, so inputs created earlier in the same set survive a rebase; (R7) the output→position maps used for parent discovery are built per transaction kind and used only on their own list, so a lookup cannot return an unrelated transaction or panic (same check as C14.R5). The pool-side parts of 'assembling a broadcastable set' are decided under C05.R1 and C14.R3. (R8) a range loop over a list that its body appends to (the parent worklist of the set assembly, closures expanded) is enclosed in a loop whose exit tests the list's length, so ancestors of every depth are found. (R9) inside the reorg-path method (helpers and closures expanded) the bound parameter is compared, in one comparison, with a quantity formed from the lengths of both the revert list and the apply list, so the supported distance limits the whole path and not each direction separately. (R10) in package chain every id derived from a transaction by position (SiacoinOutputID, SiafundOutputID, SiafundClaimOutputID, FileContractID, V2FileContractID, Ephemeral*Output) takes its position from a range over the list of that same transaction the id belongs to (outputs for output ids, siafund inputs for claim ids, contracts for contract ids): the parent map then knows every element a pooled transaction creates. (R11) the pointer-into-loop-copy check of C05.R7 over all of package chain; (R12) in a function taking two chain indices, a success return that is not behind the callee given both lies behind their whole-value equality. NOT decided: equality of the resulting proofs with the ledger's, parent ordering."

	register(&Rule{ID: "C13.R1", Prop: "C13", Floor: 3, Doc: "validate-before-update: proofs are checked against the basis before any update", Run: c13r1})
	register(&Rule{ID: "C13.R2", Prop: "C13", Floor: 1, Doc: "caller's memory untouched: only deep copies are modified", Run: c13r2})
	register(&Rule{ID: "C13.R3", Prop: "C13", Floor: 5, Doc: "supplement dereferences are nil-guarded (pruned/unvalidated blocks give errors, not panics)", Run: c13r3})
	register(&Rule{ID: "C13.R4", Prop: "C13", Floor: 1, Doc: "rebasing uses a finite reorg-path bound", Run: c13r4})
	register(&Rule{ID: "C13.R7", Prop: "C13", Floor: 3, Doc: "parent discovery uses a position map of the right transaction kind (same check as C14.R5)", Run: positionMapsKindSafe})
	register(&Rule{ID: "C13.R8", Prop: "C13", Floor: 1, Doc: "ancestor discovery iterates its growing worklist to a fixpoint", Run: c13r8})
	register(&Rule{ID: "C13.R6", Prop: "C13", Floor: 1, Doc: "the proof updater skips ephemeral elements before range-checking leaf indices", Run: ephemeralSkipped})
	register(&Rule{ID: "C13.R9", Prop: "C13", Floor: 1, Doc: "the reorg-path bound limits the whole path: one comparison of the bound with the lengths of both the revert and the apply list", Run: c13r9})
	register(&Rule{ID: "C13.R11", Prop: "C13", Floor: 4, Doc: "element pointers handed to the proof / ephemeral-element updaters point into the pooled transaction, never into a loop copy (same check as C05.R7)", Run: c05r7})
	register(&Rule{ID: "C13.R12", Prop: "C13", Floor: 1, Doc: "a rebase between two chain indices is skipped only behind the whole-value equality of the two (not their heights)", Run: c13r12})
	register(&Rule{ID: "C13.R10", Prop: "C13", Floor: 8, Doc: "ids derived from a transaction by position (output, claim, contract ids) use positions of the list they belong to", Run: func(c *Ctx) { derivedIDDomains(c, "chain") }})
	register(&Rule{ID: "C13.R5", Prop: "C13", Floor: 1, Doc: "set assembly discovers parents in a revalidated pool", Run: func(c *Ctx) {
		// the parent-discovery helper: unexported Manager method returning a map keyed by Hash256
		var pm *types.Func
		for _, f := range c.P.MethodsOf("chain", "Manager") {
			if exported(f) || f.Type.Results == nil {
				continue
			}
			for _, fld := range f.Type.Results.List {
				if mt, ok := f.Info().TypeOf(fld.Type).(*types.Map); ok && ir.IsNamed(mt.Key(), ir.PkgPath("types"), "Hash256") {
					pm = f.Obj
				}
			}
		}
		if pm == nil {
			ir.Fail("parent-map helper not found")
		}
		poolReadersRevalidate(c, func(v *ir.Func) bool { // v: the method's expanded view
			if len(v.CallsTo(true, pm)) > 0 {
				return true
			}
			for _, fn := range v.Inlined {
				if fn == pm {
					return true
				}
			}
			return false
		})
	}})
}

// rebaseFn: the Manager method with parameters ([]V2Transaction, ChainIndex, ChainIndex) that is not exported.
func rebaseFn(c *Ctx) *ir.Func {
	for _, f := range c.P.MethodsOf("chain", "Manager") {
		if exported(f) || f.Type.Params == nil || f.Type.Params.NumFields() != 3 {
			continue
		}
		var ts []types.Type
		for _, fld := range f.Type.Params.List {
			for range fld.Names {
				ts = append(ts, f.Info().TypeOf(fld.Type))
			}
		}
		if sl, ok := ts[0].(*types.Slice); ok && ir.IsNamed(sl.Elem(), ir.PkgPath("types"), "V2Transaction") &&
			ir.IsNamed(ts[1], ir.PkgPath("types"), "ChainIndex") && ir.IsNamed(ts[2], ir.PkgPath("types"), "ChainIndex") {
			return f
		}
	}
	ir.Fail("rebasing method ([]V2Transaction, ChainIndex, ChainIndex) not found")
	return nil
}

// reorgPathFn: the Manager method returning two []ChainIndex and an error.
func reorgPathFn(c *Ctx) *ir.Func {
	for _, f := range c.P.MethodsOf("chain", "Manager") {
		if f.Type.Results == nil || f.Type.Results.NumFields() != 3 {
			continue
		}
		n := 0
		for _, fld := range f.Type.Results.List {
			if sl, ok := f.Info().TypeOf(fld.Type).(*types.Slice); ok && ir.IsNamed(sl.Elem(), ir.PkgPath("types"), "ChainIndex") {
				k := len(fld.Names)
				if k == 0 {
					k = 1
				}
				n += k
			}
		}
		if n == 2 {
			return f
		}
	}
	ir.Fail("reorg-path method not found")
	return nil
}

// proofUpdaterFn: the package function taking (*V2Transaction, <element updater>, uint64 accumulator size).
func proofUpdaterFn(c *Ctx) *ir.Func {
	for _, f := range c.P.PkgFuncs("chain") {
		if f.Obj.Type().(*types.Signature).Recv() != nil || f.Type.Params.NumFields() < 2 {
			continue
		}
		t0 := f.Info().TypeOf(f.Type.Params.List[0].Type)
		hasSize := false
		for _, fld := range f.Type.Params.List {
			if b, ok := f.Info().TypeOf(fld.Type).Underlying().(*types.Basic); ok && b.Kind() == types.Uint64 {
				hasSize = true
			}
		}
		if pt, ok := t0.(*types.Pointer); ok && hasSize && ir.IsNamed(pt.Elem(), ir.PkgPath("types"), "V2Transaction") {
			return f
		}
	}
	ir.Fail("proof updater (func(*V2Transaction, …)) not found")
	return nil
}

func c13r1(c *Ctx) {
	r := getChainRoles(c.P)
	f := r.view(rebaseFn(c))
	rp := reorgPathFn(c)
	pu := proofUpdaterFn(c)
	g := f.Graph()
	c.VisitGraph(f)
	// guards: basis state lookup success, and the natural exit of the validation loop
	var stateOK []*cfgx.Edge
	for _, sc := range f.CallsTo(false, r.storeState) {
		stateOK = append(stateOK, f.CheckOf(sc.Expr).Succ...)
	}
	var loopExits []*cfgx.Edge
	var param types.Object
	for _, nm := range f.Type.Params.List[0].Names {
		param = f.Info().Defs[nm]
	}
	for _, call := range f.Calls(false) {
		if call.Fn == nil || call.Fn.Name() != "ValidateTransactionElements" {
			continue
		}
		n := g.NodeContaining(call.Pos())
		head, exit, body := enclosingRange(f, n)
		if head == nil || f.ObjOf(head.AST.(*ast.RangeStmt).X) != param {
			continue
		}
		chk := f.CheckOf(call.Expr)
		cut := map[*cfgx.Edge]bool{}
		for _, e := range chk.Succ {
			cut[e] = true
		}
		// the validated value must be the loop element
		rs := head.AST.(*ast.RangeStmt)
		if rs.Value == nil || len(call.Expr.Args) != 1 || f.ObjOf(call.Expr.Args[0]) != f.ObjOf(rs.Value) {
			continue
		}
		if len(chk.Succ) > 0 && !reachAvoidingEdges(g, body, head, nil, cut) {
			loopExits = append(loopExits, exit)
		}
	}
	sinks := f.CallsTo(false, rp.Obj, pu.Obj)
	if len(sinks) == 0 {
		ir.Fail("the rebasing method calls neither the reorg-path method nor the proof updater")
	}
	for _, sink := range sinks {
		ob := c.Ob(f, "after-basis-validation:"+sink.Fn.Name(), sink.Pos())
		sn := g.NodeContaining(sink.Pos())
		switch {
		case !f.OnlyVia(sn, stateOK):
			ob.Bad(nil, "%s at %s is reachable without the basis state having been found in the store: an unknown basis is processed instead of rejected", sink.Fn.Name(), c.P.Pos(sink.Pos()))
		case !f.OnlyVia(sn, loopExits):
			ob.Bad(nil, "%s at %s is reachable without every transaction of the set having passed ValidateTransactionElements against the basis state: updating an invalid proof can panic", sink.Fn.Name(), c.P.Pos(sink.Pos()))
		default:
			ob.OK("after basis lookup and per-transaction element validation")
		}
	}
}

func c13r2(c *Ctx) {
	f := getChainRoles(c.P).view(rebaseFn(c))
	pu := proofUpdaterFn(c)
	deepCopy := c.P.Method("types", "V2Transaction", "DeepCopy")
	var param types.Object
	for _, nm := range f.Type.Params.List[0].Names {
		param = f.Info().Defs[nm]
	}
	c.VisitGraph(f)
	t := RunTaint(TaintCfg{Top: f, ElemCarries: true,
		SourceObj: func(o types.Object) bool { return o == param },
		Sanitizer: func(fn *ir.Func, call *ast.CallExpr) bool { return fn.Callee(call) == deepCopy.Origin() },
	})
	ob := c.Ob(f, "writes-only-to-deep-copies", f.Body.Pos())
	bad := ""
	for _, fn := range append([]*ir.Func{f}, f.Lits...) {
		for _, w := range fn.WritesIn(fn.Body, false) {
			l := ast.Unparen(w.LHS)
			if _, isID := l.(*ast.Ident); isID {
				continue
			}
			// element / field store through a tainted base
			base := l
			for {
				switch x := base.(type) {
				case *ast.IndexExpr:
					base = ast.Unparen(x.X)
					continue
				case *ast.SelectorExpr:
					base = ast.Unparen(x.X)
					continue
				case *ast.StarExpr:
					base = ast.Unparen(x.X)
					continue
				}
				break
			}
			if t.Expr(fn, base) && base != l {
				// storing into a slice header variable that merely aliases is a write to shared memory
				if _, isIdx := l.(*ast.IndexExpr); isIdx || containsIndex(l) {
					bad = c.P.Pos(w.LHS.Pos())
				}
			}
		}
		for _, call := range fn.Calls(false) {
			if call.Fn != pu.Obj || len(call.Expr.Args) == 0 {
				continue
			}
			if u, ok := ast.Unparen(call.Expr.Args[0]).(*ast.UnaryExpr); ok && u.Op == token.AND {
				if t.Expr(fn, rootOfLvalue(u.X)) {
					bad = c.P.Pos(call.Pos())
				}
			}
		}
	}
	ob.Check(bad == "", nil, "memory derived from the caller's transactions (not a DeepCopy) is modified at %s: the caller's proofs are rewritten in place and the returned set mixes proofs of two forks", bad)
}

func containsIndex(e ast.Expr) bool {
	found := false
	ast.Inspect(e, func(n ast.Node) bool {
		if _, ok := n.(*ast.IndexExpr); ok {
			found = true
		}
		return !found
	})
	return found
}

// supplementVars returns, per function, the variables holding a *V1BlockSupplement obtained from the store.
func supplementDerefs(c *Ctx, f *ir.Func) (vars map[types.Object]bool, derefs []*ast.StarExpr) {
	vars = map[types.Object]bool{}
	for _, w := range f.WritesIn(f.Body, false) {
		o := f.ObjOf(w.LHS)
		if o == nil {
			continue
		}
		if pt, ok := o.Type().(*types.Pointer); ok && ir.IsNamed(pt.Elem(), ir.PkgPath("consensus"), "V1BlockSupplement") {
			vars[o] = true
		}
	}
	ir.Walk(f.Body, false, func(n ast.Node) {
		if se, ok := n.(*ast.StarExpr); ok && vars[f.ObjOf(se.X)] {
			if tv, ok := f.Info().Types[se]; ok && !tv.IsType() {
				derefs = append(derefs, se)
			}
		}
	})
	return
}

func c13r3(c *Ctx) {
	r := getChainRoles(c.P)
	for _, f := range r.methodsV {
		vars, derefs := supplementDerefs(c, f)
		if len(derefs) == 0 {
			continue
		}
		g := f.Graph()
		c.VisitGraph(f)
		for _, d := range derefs {
			v := f.ObjOf(d.X)
			_ = vars
			ob := c.Ob(f, "supplement-deref-guarded", d.Pos())
			n := g.NodeContaining(d.Pos())
			var edges []*cfgx.Edge
			for _, m := range g.Nodes {
				if m.Block == nil || m.Block.Cond != m.AST || len(m.Succs) != 2 {
					continue
				}
				if x, nonNilOnTrue, ok := f.NilTest(m.AST.(ast.Expr)); ok && f.ObjOf(x) == v {
					if nonNilOnTrue {
						edges = append(edges, m.Succs[0])
					} else {
						edges = append(edges, m.Succs[1])
					}
				}
			}
			if f.OnlyVia(n, edges) {
				ob.OK("dominated by a non-nil test")
				continue
			}
			// or: followed per path (tests of the pointer, of a flag computed from it, allocations, assignments of nil
			// on failure exits), the pointer is non-nil on every feasible path that arrives here
			if mayBeNil, _, tracked := f.NilAt(n, v); tracked && !mayBeNil {
				ob.OK("non-nil on every feasible path")
				continue
			}
			// or: every reaching definition at the dereference is a fresh allocation
			fresh := true
			for _, def := range ReachingDefs(f, v, n) {
				if def == nil {
					fresh = false
					continue
				}
				okDef := false
				for _, w := range f.WritesIn(def.AST, false) {
					if f.ObjOf(w.LHS) != v || w.RHS == nil {
						continue
					}
					switch x := ast.Unparen(w.RHS).(type) {
					case *ast.CallExpr:
						if id, ok := x.Fun.(*ast.Ident); ok && id.Name == "new" {
							okDef = true
						}
					case *ast.UnaryExpr:
						if x.Op == token.AND {
							okDef = true
						}
					}
				}
				if !okDef {
					// a definition from the store is acceptable when the non-nil edge lies between it and the use
					fresh = false
				}
			}
			if fresh {
				ob.OK("every reaching definition is a fresh allocation")
				continue
			}
			// mixed: paths from a store definition must cross a non-nil edge; paths from allocations need not
			okMixed := true
			for _, def := range ReachingDefs(f, v, n) {
				if def == nil {
					okMixed = false
					continue
				}
				alloc := false
				for _, w := range f.WritesIn(def.AST, false) {
					if f.ObjOf(w.LHS) == v && w.RHS != nil {
						if x, ok := ast.Unparen(w.RHS).(*ast.CallExpr); ok {
							if id, ok := x.Fun.(*ast.Ident); ok && id.Name == "new" {
								alloc = true
							}
						}
					}
				}
				if alloc {
					continue
				}
				// from def to n avoiding non-nil edges and allocations
				cut := map[*cfgx.Edge]bool{}
				for _, e := range edges {
					cut[e] = true
				}
				var st []*cfgx.Visit
				for _, e := range def.Succs {
					st = append(st, cfgx.StartAfter(e, 0))
				}
				vs := g.Explore(st, cfgx.Walker{
					AtNode: func(m *cfgx.Node, s cfgx.State) (cfgx.State, bool) {
						if m.AST != nil && m != def {
							for _, w := range f.WritesIn(m.AST, false) {
								if f.ObjOf(w.LHS) == v {
									return s, false
								}
							}
						}
						return s, true
					},
					OnEdge: func(e *cfgx.Edge, s cfgx.State) (cfgx.State, bool) { return s, !cut[e] },
				})
				for _, vv := range vs {
					if vv.Node == n {
						okMixed = false
					}
				}
			}
			ob.Check(okMixed, nil, "the block supplement %s is dereferenced at %s on a path where it may be nil (block pruned, or stored without having been validated): the manager panics instead of returning an error", v.Name(), c.P.Pos(d.Pos()))
		}
	}
}

func c13r4(c *Ctx) {
	r := getChainRoles(c.P)
	rp := reorgPathFn(c)
	n := 0
	for _, f := range r.methodsV {
		if f.Base == r.reorgTo {
			continue
		}
		for _, call := range f.CallsTo(true, rp.Obj) {
			n++
			c.VisitGraph(f)
			ob := c.Ob(f, "finite-path-bound", call.Pos())
			last := call.Expr.Args[len(call.Expr.Args)-1]
			v, ok := f.ConstInt(last)
			ob.Check(ok && v > 0 && v < 1<<20, nil, "the reorg-path bound passed at %s is not a small integer constant: rebasing across an arbitrarily long path holds the manager lock unboundedly (only the tip walker may pass an unbounded value)", c.P.Pos(call.Pos()))
		}
	}
	if n == 0 {
		ir.Fail("no call of the reorg-path method outside the tip walker")
	}
}

// ephemeralSkipped: inside the proof updater, an element's leaf index is
// compared with the accumulator size only where it is known not to be the
// ephemeral sentinel (elements created in the same set have no leaf yet).
func ephemeralSkipped(c *Ctx) {
	pu := proofUpdaterFn(c)
	unassigned := c.P.Package("types").Types.Scope().Lookup("UnassignedLeafIndex")
	if unassigned == nil {
		ir.Fail("types.UnassignedLeafIndex not found")
	}
	// the size parameter: the uint64 parameter of the updater
	var size types.Object
	for _, fld := range pu.Type.Params.List {
		if b, ok := pu.Info().TypeOf(fld.Type).Underlying().(*types.Basic); ok && b.Kind() == types.Uint64 {
			for _, nm := range fld.Names {
				size = pu.Info().Defs[nm]
			}
		}
	}
	n := 0
	for _, f := range append([]*ir.Func{pu}, pu.Lits...) {
		g := f.Graph()
		for _, node := range g.Nodes {
			if node.AST == nil {
				continue
			}
			var cmp *ast.BinaryExpr
			ir.Walk(node.AST, false, func(x ast.Node) {
				be, ok := x.(*ast.BinaryExpr)
				if !ok {
					return
				}
				switch be.Op {
				case token.LSS, token.GEQ, token.GTR, token.LEQ:
				default:
					return
				}
				isLeaf := func(e ast.Expr) bool {
					sel, ok := ast.Unparen(e).(*ast.SelectorExpr)
					return ok && sel.Sel.Name == "LeafIndex"
				}
				if (isLeaf(be.X) && f.ObjOf(be.Y) == size) || (isLeaf(be.Y) && f.ObjOf(be.X) == size) {
					cmp = be
				}
			})
			if cmp == nil {
				continue
			}
			n++
			c.VisitGraph(f)
			ob := c.Ob(f, "ephemeral-elements-not-range-checked", cmp.Pos())
			var edges []*cfgx.Edge
			for _, m := range g.Nodes {
				if m.Block == nil || m.Block.Cond != m.AST || len(m.Succs) != 2 {
					continue
				}
				be, ok := ast.Unparen(m.AST.(ast.Expr)).(*ast.BinaryExpr)
				if !ok || (be.Op != token.EQL && be.Op != token.NEQ) {
					continue
				}
				isLeaf := func(e ast.Expr) bool {
					sel, ok := ast.Unparen(e).(*ast.SelectorExpr)
					return ok && sel.Sel.Name == "LeafIndex"
				}
				isUn := func(e ast.Expr) bool {
					if sel, ok := ast.Unparen(e).(*ast.SelectorExpr); ok {
						return f.Info().Uses[sel.Sel] == unassigned
					}
					return f.ObjOf(e) == unassigned
				}
				if (isLeaf(be.X) && isUn(be.Y)) || (isLeaf(be.Y) && isUn(be.X)) {
					if be.Op == token.EQL {
						edges = append(edges, m.Succs[1])
					} else {
						edges = append(edges, m.Succs[0])
					}
				}
			}
			// the accumulator holds leaves 0 … size-1: the relation tested must be `leaf < size` (or its negation `leaf >= size`)
			op := cmp.Op
			if f.ObjOf(cmp.X) == size { // size on the left: mirror
				switch op {
				case token.LSS:
					op = token.GTR
				case token.GTR:
					op = token.LSS
				case token.LEQ:
					op = token.GEQ
				case token.GEQ:
					op = token.LEQ
				}
			}
			obS := c.Ob(f, "leaf-bound-is-strict", cmp.Pos())
			obS.Check(op == token.LSS || op == token.GEQ, nil, "the element's leaf index is compared with the accumulator size at %s with `%s`: an element whose leaf index equals the number of leaves (the first leaf a reverted block had added) passes the bound, and core's proof update panics on it instead of the rebase returning an error", c.P.Pos(cmp.Pos()), cmp.Op)
			ob.Check(f.OnlyVia(node, edges), nil, "the element's leaf index is compared with the accumulator size at %s without first excluding the ephemeral sentinel (types.UnassignedLeafIndex): a transaction spending an output created earlier in the same set is declared invalid, so it is dropped from the pool by any block and cannot be rebased", c.P.Pos(cmp.Pos()))
		}
	}
	if n == 0 {
		ir.Fail("no leaf-index range check found in the proof updater")
	}
}

// c13r8: a worklist that is extended while it is being ranged over. `for _, x :=
// range P { … P = append(P, …) … }` visits only the elements P had when the loop
// started (the range expression is evaluated once), so discovering *all*
// ancestors of a transaction needs an enclosing loop that repeats the pass until
// P stops growing. Without it the assembled set lacks the grand-grand-parents
// and is not broadcastable.
func c13r8(c *Ctx) {
	r := getChainRoles(c.P)
	n := 0
	for _, f := range r.vs.Roots {
		for _, fn := range append([]*ir.Func{f}, f.Lits...) {
			g := fn.Graph()
			for _, head := range g.Nodes {
				rs, ok := head.AST.(*ast.RangeStmt)
				if !ok || !simpleLvalue(rs.X) {
					continue
				}
				if _, isSlice := fn.TypeOf(rs.X).Underlying().(*types.Slice); !isSlice {
					continue
				}
				grows := false
				for _, w := range fn.WritesIn(rs.Body, false) {
					if !sameLvalue(fn, w.LHS, rs.X) || w.RHS == nil {
						continue
					}
					if ac, ok := ast.Unparen(w.RHS).(*ast.CallExpr); ok && len(ac.Args) >= 2 {
						if id, ok := ac.Fun.(*ast.Ident); ok && id.Name == "append" && sameLvalue(fn, ac.Args[0], rs.X) {
							grows = true
						}
					}
				}
				if !grows {
					continue
				}
				n++
				c.VisitGraph(fn)
				ob := c.Ob(fn, "growing-worklist-iterated-to-fixpoint", rs.Pos())
				good := false
				ir.Walk(fn.Body, false, func(x ast.Node) {
					fs, ok := x.(*ast.ForStmt)
					if !ok || !containsNode(fs.Body, rs) {
						return
					}
					// the enclosing loop's exit must depend on the list's length
					ir.Walk(fs, false, func(y ast.Node) {
						if containsNode(rs, y) {
							return
						}
						if call, ok := y.(*ast.CallExpr); ok {
							if lx := lenOf(fn, call); lx != nil && sameLvalue(fn, lx, rs.X) {
								good = true
							}
						}
					})
				})
				ob.Check(good, nil, "the loop at %s ranges over %s and appends to it, but is not repeated until the list stops growing: elements appended during the pass are never visited, so ancestors beyond the second level are missing from the assembled set", c.P.Pos(rs.Pos()), ir.ExprString(rs.X))
			}
		}
	}
	// the other correct form: a counting loop whose condition re-reads the list's length on every iteration
	// (`for i := 0; i < len(S); i++` with the body appending to S) visits what it appends
	for _, f := range r.vs.Roots {
		for _, fn := range append([]*ir.Func{f}, f.Lits...) {
			ir.Walk(fn.Body, false, func(x ast.Node) {
				fs, ok := x.(*ast.ForStmt)
				if !ok || fs.Cond == nil {
					return
				}
				be, ok := ast.Unparen(fs.Cond).(*ast.BinaryExpr)
				if !ok || be.Op != token.LSS {
					return
				}
				S := lenOf(fn, be.Y)
				if S == nil || !simpleLvalue(S) {
					return
				}
				for _, w := range fn.WritesIn(fs.Body, false) {
					if !sameLvalue(fn, w.LHS, S) || w.RHS == nil {
						continue
					}
					if ac, ok := ast.Unparen(w.RHS).(*ast.CallExpr); ok && len(ac.Args) >= 2 {
						if id, ok := ac.Fun.(*ast.Ident); ok && id.Name == "append" && sameLvalue(fn, ac.Args[0], S) {
							n++
							c.VisitGraph(fn)
							c.Ob(fn, "growing-worklist-iterated-to-fixpoint", fs.Pos()).OK("counting loop bounded by the live length of %s", ir.ExprString(S))
							return
						}
					}
				}
			})
		}
	}
	if n == 0 {
		ir.Fail("no worklist loop (a loop over a list the body appends to) found in package chain")
	}
}

func simpleLvalue(e ast.Expr) bool {
	for {
		switch t := ast.Unparen(e).(type) {
		case *ast.Ident:
			return true
		case *ast.SelectorExpr:
			e = t.X
		default:
			return false
		}
	}
}

// c13r9: the path bound limits revert + apply together.
func c13r9(c *Ctx) {
	r := getChainRoles(c.P)
	f := r.view(reorgPathFn(c))
	g := f.Graph()
	c.VisitGraph(f)
	ob := c.Ob(f, "bound-on-whole-path", f.Body.Pos())
	var bound types.Object
	for _, fld := range f.Type.Params.List {
		if b, ok := f.Info().TypeOf(fld.Type).Underlying().(*types.Basic); ok && b.Kind() == types.Int {
			for _, nm := range fld.Names {
				bound = f.Info().Defs[nm]
			}
		}
	}
	if bound == nil {
		ob.Unknown("the reorg-path method has no integer bound parameter")
		return
	}
	// the two lists: the []ChainIndex variables appended to
	lists := map[types.Object]bool{}
	for _, w := range f.WritesIn(f.Body, true) {
		if w.RHS == nil {
			continue
		}
		if sl, ok := f.TypeOf(w.LHS).(*types.Slice); ok && ir.IsNamed(sl.Elem(), ir.PkgPath("types"), "ChainIndex") {
			if ac, ok := ast.Unparen(w.RHS).(*ast.CallExpr); ok {
				if id, ok := ac.Fun.(*ast.Ident); ok && id.Name == "append" {
					if o := f.ObjOf(w.LHS); o != nil {
						lists[c.P.OrigObj(o)] = true
					}
				}
			}
		}
	}
	if len(lists) != 2 {
		ob.Unknown("expected two chain-index lists (revert, apply) built by the reorg-path method, found %d", len(lists))
		return
	}
	tested, whole := false, false
	for _, fn := range append([]*ir.Func{f}, f.Lits...) {
		for _, n := range fn.Graph().Nodes {
			if n.AST == nil || n.Block == nil || n.Block.Cond != n.AST {
				continue
			}
			be, ok := ast.Unparen(n.AST.(ast.Expr)).(*ast.BinaryExpr)
			if !ok {
				continue
			}
			var other ast.Expr
			switch {
			case c.P.OrigObj(fn.ObjOf(be.X)) == bound:
				other = be.Y
			case c.P.OrigObj(fn.ObjOf(be.Y)) == bound:
				other = be.X
			default:
				continue
			}
			switch be.Op {
			case token.GTR, token.GEQ, token.LSS, token.LEQ:
			default:
				continue
			}
			tested = true
			seen := map[types.Object]bool{}
			for _, sub := range expandCond(fn, other) {
				if e, ok := sub.(ast.Expr); ok {
					if lx := lenOf(fn, e); lx != nil {
						if o := fn.ObjOf(lx); o != nil && lists[c.P.OrigObj(o)] {
							seen[c.P.OrigObj(o)] = true
						}
					}
				}
			}
			if len(seen) == 2 {
				whole = true
			}
		}
	}
	_ = g
	switch {
	case !tested:
		ob.Bad(nil, "the reorg-path method never compares its bound with the path built so far: an unknown or distant basis walks the whole chain under the manager lock")
	case !whole:
		ob.Bad(nil, "the reorg-path bound is compared with the revert list and the apply list separately (or with one of them only): a rebase across two branches that are each within the supported distance but together beyond it is accepted")
	default:
		ob.OK("one comparison bounds len(revert)+len(apply)")
	}
}

// derivedIDDomains: in package pkg, a position handed to a method that derives
// an element id from a transaction and a position comes from a range over the
// list of that same transaction the id belongs to.
func derivedIDDomains(c *Ctx, pkg string) {
	domain := map[string]string{
		"SiacoinOutputID":        "SiacoinOutputs",
		"EphemeralSiacoinOutput": "SiacoinOutputs",
		"SiafundOutputID":        "SiafundOutputs",
		"EphemeralSiafundOutput": "SiafundOutputs",
		"SiafundClaimOutputID":   "SiafundInputs",
		"FileContractID":         "FileContracts",
		"V2FileContractID":       "FileContracts",
	}
	for _, f := range c.P.PkgFuncs(pkg) {
		for _, fn := range append([]*ir.Func{f}, f.Lits...) {
			visited := false
			for _, call := range fn.Calls(false) {
				if call.Fn == nil || call.Fn.Pkg() == nil || call.Fn.Pkg().Path() != ir.PkgPath("types") {
					continue
				}
				want, ok := domain[call.Fn.Name()]
				if !ok || call.Recv() == nil || len(call.Expr.Args) == 0 {
					continue
				}
				rn := recvNamed(call.Fn)
				if rn == nil || (rn.Obj().Name() != "Transaction" && rn.Obj().Name() != "V2Transaction") {
					continue
				}
				idx := call.Expr.Args[len(call.Expr.Args)-1]
				iobj := fn.ObjOf(idx)
				if iobj == nil {
					continue // a constant or a computed position: not a loop position
				}
				// the range statement whose key is the position
				var rs *ast.RangeStmt
				ir.Walk(fn.Top().Body, true, func(x ast.Node) {
					if r, ok := x.(*ast.RangeStmt); ok && r.Key != nil && fn.ObjOf(r.Key) == iobj {
						rs = r
					}
				})
				if rs == nil {
					continue
				}
				if !visited {
					c.VisitGraph(fn)
					visited = true
				}
				ob := c.Ob(fn, "position-of-own-list:"+call.Fn.Name(), call.Pos())
				sel, isSel := ast.Unparen(rs.X).(*ast.SelectorExpr)
				switch {
				case !isSel:
					ob.Bad(nil, "%s is given a position of %s, which is not a list of the transaction", call.Fn.Name(), ir.ExprString(rs.X))
				case !sameLvalue(fn, sel.X, call.Recv()):
					ob.Bad(nil, "%s of %s is given a position of %s: a list of another value", call.Fn.Name(), ir.ExprString(call.Recv()), ir.ExprString(rs.X))
				case sel.Sel.Name != want:
					ob.Bad(nil, "%s is given positions of %s instead of %s: elements at positions the other list does not have are never derived (e.g. an output created by a pooled transaction is unknown to parent discovery) and positions beyond the right list derive ids of elements that do not exist", call.Fn.Name(), ir.ExprString(rs.X), want)
				default:
					ob.OK("positions of %s", want)
				}
			}
		}
	}
}

// c13r12: a rebase between two chain indices may be skipped only when the indices are *equal* — same height and same
// id. Two indices at the same height on different forks need the full revert-and-apply walk; a shortcut that compares
// heights only hands the set back with the source fork's proofs and no error. Every success return of a function
// taking two chain indices that is not behind the call doing the work (a callee that is given both) must lie behind
// the whole-value equality of the two.
func c13r12(c *Ctx) {
	n := 0
	for _, f := range c.P.PkgFuncs("chain") {
		if f.Type.Params == nil || f.Type.Results == nil {
			continue
		}
		var idx []types.Object
		for _, fld := range f.Type.Params.List {
			for _, nm := range fld.Names {
				if o := f.Info().Defs[nm]; o != nil && ir.IsNamed(o.Type(), ir.PkgPath("types"), "ChainIndex") {
					idx = append(idx, o)
				}
			}
		}
		if len(idx) != 2 {
			continue
		}
		g := f.Graph()
		// the calls that are handed both indices
		worker := func(nd *cfgx.Node) bool {
			for _, call := range f.NodeCalls(nd) {
				has := [2]bool{}
				for _, a := range call.Expr.Args {
					for i, o := range idx {
						if f.ObjOf(a) == o {
							has[i] = true
						}
					}
				}
				if has[0] && has[1] {
					return true
				}
			}
			return false
		}
		hasWorker := false
		for _, nd := range g.Nodes {
			if worker(nd) {
				hasWorker = true
			}
		}
		if !hasWorker {
			continue
		}
		var eq []*cfgx.Edge
		for _, m := range g.Nodes {
			if m.Block == nil || m.Block.Cond != m.AST || len(m.Succs) != 2 {
				continue
			}
			be, ok := ast.Unparen(m.AST.(ast.Expr)).(*ast.BinaryExpr)
			if !ok || (be.Op != token.EQL && be.Op != token.NEQ) {
				continue
			}
			a, b := f.ObjOf(be.X), f.ObjOf(be.Y)
			if !((a == idx[0] && b == idx[1]) || (a == idx[1] && b == idx[0])) {
				continue
			}
			if be.Op == token.EQL {
				eq = append(eq, m.Succs[0])
			} else {
				eq = append(eq, m.Succs[1])
			}
		}
		reach := g.Reach([]*cfgx.Visit{cfgx.StartAt(g.Entry, 0)}, worker)
		for _, r := range g.Returns() {
			if _, isRet := r.AST.(*ast.ReturnStmt); !isRet || f.ClassifyReturn(r) == ir.RetError {
				continue
			}
			v, shortcut := reach[r]
			if !shortcut {
				continue
			}
			n++
			c.VisitGraph(f)
			ob := c.Ob(f, "rebase-skipped-only-for-equal-indices", r.Pos())
			if len(eq) > 0 && f.OnlyVia(r, eq) {
				ob.OK("behind the equality of the two indices")
			} else {
				ob.Bad(c.Witness(v), "%s returns success at %s without rebasing, on a path that did not establish that the two chain indices are equal (height and id): between two blocks of the same height on different forks the set keeps the source fork's proofs", f.Name(), c.P.Pos(r.Pos()))
			}
		}
	}
	if n == 0 {
		ir.Fail("no rebase shortcut found (a function taking two chain indices that returns early)")
	}
}
