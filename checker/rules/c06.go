package rules

import (
	"go/ast"
	"go/token"
	"go/types"
	"sort"
	"strings"

	"sialint/internal/cfgx"
	"sialint/internal/ir"
)

func init() {
	Explanations["C06"] = "Decides structural necessary conditions of 'the wallet ledger equals the chain's truth across reorgs' in package wallet: (R1) order — the apply step moves existing proofs (UpdateWalletSiacoinElementProofs) before WalletApplyIndex, the revert step calls WalletRevertIndex and then moves proofs on every success path, and UpdateChainState finishes all reverts before the first apply; (R2) exhaustiveness — every type implementing the event-data interface has a case in each type switch over Event.Data (four flow methods and the encoder), every EventType* constant has a case in both decoding switches, both decoders map each constant to the same data type, and every (type constant, data type) pair emitted by the event builder appears in that table; (R3) filter agreement — the apply and revert steps classify siacoin element diffs with the same case set (ephemeral skipped, foreign address skipped, created, spent) and hand created↔removed and spent↔unspent to the store in the corresponding argument positions. (R4) in the event builders two tests of different address operands of one loop element against the wallet's address are mutually independent (each reached on both outcomes of the other). (R5) each relevance predicate of the wallet (a function from a transaction and an address to bool) ranges over the whole siacoin output list and the whole siacoin input list of the transaction, comparing an address of the ranged element with its address parameter and reporting relevance on equality, and subscripts neither list at a fixed position — a jointly funded transaction is relevant whichever position the wallet's input has. (R6) in every function of the repository (the reference wallet store and contractor in testutil included), a loop over positions of a list that removes the element at the current position (slices.Delete(S, i, i+1) or append(S[:i], S[i+1:]...)) cannot come round to the next position on a path that neither decrements the position nor leaves the loop: otherwise the element that slid into the freed position is never examined (every second event of a reverted block survives). (R7) every repository implementation of UpdateTx.WalletRevertIndex writes its event-list field before every success return; (R8) every definition of the index handed to WalletRevertIndex that reaches the call is a ChainIndex literal whose ID is <update>.Block.ID(). NOT decided: equality of the utxo set and events with a linear replay, maturity heights, inflow − outflow = balance."

	register(&Rule{ID: "C06.R1", Prop: "C06", Floor: 4, Doc: "proof-move / index-update order on apply and revert; reverts before applies", Run: c06r1})
	register(&Rule{ID: "C06.R2", Prop: "C06", Floor: 8, Doc: "event tables are exhaustive and agree (type switches, decoders, emitted pairs)", Run: c06r2})
	register(&Rule{ID: "C06.R3", Prop: "C06", Floor: 3, Doc: "apply and revert classify element diffs identically and pass them in corresponding positions", Run: c06r3})
	register(&Rule{ID: "C06.R5", Prop: "C06", Floor: 2, Doc: "the wallet's relevance tests examine every output and every input of a transaction", Run: c06r5})
	register(&Rule{ID: "C06.R6", Prop: "C06", Floor: 1, Doc: "a loop that removes the element at its current position from the list it walks does not move on to the next position without compensating (reference stores included)", Run: c06r6})
	register(&Rule{ID: "C06.R7", Prop: "C06", Floor: 1, Doc: "a store's revert step rewrites its event list before every success return (also when the block left no element diffs)", Run: c06r7})
	register(&Rule{ID: "C06.R8", Prop: "C06", Floor: 1, Doc: "the index a revert is announced under carries the reverted block's own id (Block.ID()), never the parent's index", Run: c06r8})
	register(&Rule{ID: "C06.R4", Prop: "C06", Floor: 1, Doc: "payouts of one element to the wallet are tested independently (host and renter output of a v2 contract)", Run: c06r4})
}

func walletSteps(c *Ctx) (apply, revert *ir.Func) {
	// the functions of the package (methods or not) that take the store transaction and one update
	for _, f := range c.P.PkgFuncs("wallet") {
		if f.Type.Params == nil {
			continue
		}
		takesTx := false
		for _, fld := range f.Type.Params.List {
			if ir.IsNamed(f.Info().TypeOf(fld.Type), ir.PkgPath("wallet"), "UpdateTx") {
				takesTx = true
			}
		}
		if !takesTx {
			continue
		}
		var carried []types.Type
		for _, fld := range f.Type.Params.List {
			carried = append(carried, f.Info().TypeOf(fld.Type))
		}
		// the update may be the receiver: a small type that wraps it (`appliedBlock struct{ chain.ApplyUpdate }`)
		if f.Obj != nil {
			if recv := f.Obj.Type().(*types.Signature).Recv(); recv != nil {
				carried = append(carried, recv.Type())
				if st, ok := recv.Type().Underlying().(*types.Struct); ok {
					for i := 0; i < st.NumFields(); i++ {
						carried = append(carried, st.Field(i).Type())
					}
				}
			}
		}
		for _, t := range carried {
			if ir.IsNamed(t, ir.PkgPath("chain"), "ApplyUpdate") {
				apply = f
			}
			if ir.IsNamed(t, ir.PkgPath("chain"), "RevertUpdate") {
				revert = f
			}
		}
	}
	if apply == nil || revert == nil {
		ir.Fail("wallet apply/revert steps (methods taking chain.ApplyUpdate / chain.RevertUpdate) not found")
	}
	// with helpers (error wrappers, a shared classifier or relevance predicate) expanded
	vs := c.P.Views("wallet", ir.ExpandOpt{Key: "all"})
	return vs.Of(apply), vs.Of(revert)
}

func c06r1(c *Ctx) {
	proofs := c.P.Method("wallet", "UpdateTx", "UpdateWalletSiacoinElementProofs")
	applyIdx := c.P.Method("wallet", "UpdateTx", "WalletApplyIndex")
	revertIdx := c.P.Method("wallet", "UpdateTx", "WalletRevertIndex")
	af, rf := walletSteps(c)
	{
		g := af.Graph()
		c.VisitGraph(af)
		ob := c.Ob(af, "proofs-moved-before-apply-index", af.Body.Pos())
		var edges []*cfgx.Edge
		for _, pc := range af.CallsTo(false, proofs) {
			edges = append(edges, af.CheckOf(pc.Expr).Succ...)
		}
		good := len(af.CallsTo(false, applyIdx)) > 0
		for _, ac := range af.CallsTo(false, applyIdx) {
			if !af.OnlyVia(g.NodeContaining(ac.Pos()), edges) {
				good = false
			}
		}
		ob.Check(good, nil, "WalletApplyIndex is reachable before the existing elements' proofs were moved to the new block: elements created by the block would be updated with their own block's update (or stored proofs go stale)")
		ob2 := c.Ob(af, "apply-index-on-every-success", af.Body.Pos())
		isAI := func(n *cfgx.Node) bool { _, ok := af.NodeCallsTo(n, applyIdx); return ok }
		bad := false
		for ret, v := range g.Reach([]*cfgx.Visit{cfgx.StartAt(g.Entry, 0)}, isAI) {
			if _, isRet := ret.AST.(*ast.ReturnStmt); isRet && af.ClassifyReturn(ret) != ir.RetError {
				ob2.Bad(c.Witness(v), "the apply step can report success without WalletApplyIndex")
				bad = true
			}
		}
		if !bad {
			ob2.OK("every success return passes WalletApplyIndex")
		}
	}
	{
		g := rf.Graph()
		c.VisitGraph(rf)
		ob := c.Ob(rf, "revert-index-before-proofs-moved", rf.Body.Pos())
		var edges []*cfgx.Edge
		for _, rc := range rf.CallsTo(false, revertIdx) {
			edges = append(edges, rf.CheckOf(rc.Expr).Succ...)
		}
		good := len(rf.CallsTo(false, proofs)) > 0
		for _, pc := range rf.CallsTo(false, proofs) {
			if !rf.OnlyVia(g.NodeContaining(pc.Pos()), edges) {
				good = false
			}
		}
		ob.Check(good, nil, "on revert the proofs are moved before (or without) WalletRevertIndex: elements the block created would still be present while proofs are trimmed")
		ob2 := c.Ob(rf, "proofs-moved-on-every-success", rf.Body.Pos())
		isP := func(n *cfgx.Node) bool { _, ok := rf.NodeCallsTo(n, proofs); return ok }
		bad := false
		for ret, v := range g.Reach([]*cfgx.Visit{cfgx.StartAt(g.Entry, 0)}, isP) {
			if _, isRet := ret.AST.(*ast.ReturnStmt); isRet && rf.ClassifyReturn(ret) != ir.RetError {
				ob2.Bad(c.Witness(v), "the revert step can report success at %s without moving the remaining elements' proofs: every revert must trim and rewrite all stored proofs, also when the block did not touch the wallet", c.P.Pos(ret.Pos()))
				bad = true
			}
		}
		if !bad {
			ob2.OK("every success return passes the proof move")
		}
	}
	// reverts before applies in the exported driver
	for _, f := range c.P.MethodsOf("wallet", "SingleAddressWallet") {
		rcalls, acalls := f.CallsTo(false, rf.Obj), f.CallsTo(false, af.Obj)
		if len(rcalls) == 0 || len(acalls) == 0 {
			continue
		}
		g := f.Graph()
		c.VisitGraph(f)
		ob := c.Ob(f, "all-reverts-before-first-apply", f.Body.Pos())
		var exits []*cfgx.Edge
		for _, rc := range rcalls {
			if head, exit, _ := enclosingRange(f, g.NodeContaining(rc.Pos())); head != nil {
				exits = append(exits, exit)
			}
		}
		good := true
		for _, ac := range acalls {
			if !f.OnlyVia(g.NodeContaining(ac.Pos()), exits) {
				good = false
			}
		}
		ob.Check(good, nil, "an update is applied before all reverts were processed: the wallet follows the update stream out of order")
	}
}

func c06r2(c *Ctx) {
	pkg := c.P.Package("wallet")
	scope := pkg.Types.Scope()
	dataIface := c.P.Named("wallet", "EventData")
	it := dataIface.Underlying().(*types.Interface)
	// implementers
	var impls []string
	for _, name := range scope.Names() {
		tn, ok := scope.Lookup(name).(*types.TypeName)
		if !ok || tn.IsAlias() {
			continue
		}
		if _, isIface := tn.Type().Underlying().(*types.Interface); isIface {
			continue
		}
		if types.Implements(tn.Type(), it) {
			impls = append(impls, name)
		}
	}
	sort.Strings(impls)
	// type constants
	var consts []string
	for _, name := range scope.Names() {
		if cn, ok := scope.Lookup(name).(*types.Const); ok && strings.HasPrefix(name, "EventType") {
			if b, ok := cn.Type().Underlying().(*types.Basic); ok && b.Info()&types.IsString != 0 {
				consts = append(consts, name)
			}
		}
	}
	sort.Strings(consts)
	if len(impls) < 2 || len(consts) < 2 {
		ir.Fail("event data implementers / EventType constants not found")
	}
	dataField := c.P.Field("wallet", "Event", "Data")
	typeField := c.P.Field("wallet", "Event", "Type")
	decodeTables := map[string]map[string]string{}
	for _, f := range c.P.PkgFuncs("wallet") {
		info := f.Info()
		ir.Walk(f.Body, false, func(x ast.Node) {
			switch sw := x.(type) {
			case *ast.TypeSwitchStmt:
				// switch … := e.Data.(type)
				var subj ast.Expr
				switch a := sw.Assign.(type) {
				case *ast.AssignStmt:
					if ta, ok := a.Rhs[0].(*ast.TypeAssertExpr); ok {
						subj = ta.X
					}
				case *ast.ExprStmt:
					if ta, ok := a.X.(*ast.TypeAssertExpr); ok {
						subj = ta.X
					}
				}
				if subj == nil || f.FieldOf(subj) != dataField {
					return
				}
				c.Visit(1)
				ob := c.Ob(f, "type-switch-covers-all-event-data", sw.Pos())
				seen := map[string]bool{}
				for _, cl := range sw.Body.List {
					for _, e := range cl.(*ast.CaseClause).List {
						if n := ir.NamedOf(info.TypeOf(e)); n != nil {
							seen[n.Obj().Name()] = true
						}
					}
				}
				var missing []string
				for _, im := range impls {
					if !seen[im] {
						missing = append(missing, im)
					}
				}
				ob.Check(len(missing) == 0, nil, "the type switch over Event.Data in %s has no case for %s: events of that kind contribute nothing (or are not encoded), so inflow − outflow no longer equals the balance", f.Name(), strings.Join(missing, ", "))
			case *ast.SwitchStmt:
				if sw.Tag == nil {
					return
				}
				isType := f.FieldOf(sw.Tag) == typeField
				if sel, ok := ast.Unparen(sw.Tag).(*ast.SelectorExpr); ok && sel.Sel.Name == "Type" && !isType {
					// the JSON shadow struct's Type field
					if b, ok := info.TypeOf(sw.Tag).Underlying().(*types.Basic); ok && b.Info()&types.IsString != 0 {
						isType = true
					}
				}
				if !isType {
					return
				}
				c.Visit(1)
				ob := c.Ob(f, "decoder-covers-all-event-types", sw.Pos())
				table := map[string]string{}
				for _, cl := range sw.Body.List {
					cc := cl.(*ast.CaseClause)
					// data type assigned to .Data in this clause
					dt := ""
					for _, st := range cc.Body {
						ast.Inspect(st, func(n ast.Node) bool {
							as, ok := n.(*ast.AssignStmt)
							if !ok {
								return true
							}
							for i, l := range as.Lhs {
								sel, ok := ast.Unparen(l).(*ast.SelectorExpr)
								if !ok || sel.Sel.Name != "Data" {
									continue
								}
								var t types.Type
								switch {
								case len(as.Rhs) == len(as.Lhs):
									t = info.TypeOf(as.Rhs[i])
								case len(as.Rhs) == 1:
									if call, ok := ast.Unparen(as.Rhs[0]).(*ast.CallExpr); ok {
										t = resultConcreteType(f, call, i)
									}
								}
								if nt := ir.NamedOf(t); nt != nil {
									dt = nt.Obj().Name()
								}
							}
							return true
						})
					}
					for _, e := range cc.List {
						if id, ok := ast.Unparen(e).(*ast.Ident); ok {
							table[id.Name] = dt
						}
					}
				}
				var missing []string
				for _, k := range consts {
					if _, ok := table[k]; !ok {
						missing = append(missing, k)
					}
				}
				ob.Check(len(missing) == 0, nil, "the decoder switch in %s has no case for %s: stored or transmitted events of that type cannot be read back", f.Name(), strings.Join(missing, ", "))
				decodeTables[f.Name()] = table
			}
		})
	}
	// a dispatch table instead of switches: a package-level map literal keyed by the EventType constants whose
	// values name the data type (a generic constructor's type argument, or a composite literal's type); every
	// function that indexes it is a decoder with that table
	pkgW := c.P.Package("wallet")
	for _, file := range pkgW.Syntax {
		for _, d := range file.Decls {
			gd, ok := d.(*ast.GenDecl)
			if !ok || gd.Tok != token.VAR {
				continue
			}
			for _, sp := range gd.Specs {
				vs := sp.(*ast.ValueSpec)
				for i, nm := range vs.Names {
					if i >= len(vs.Values) {
						continue
					}
					cl, ok := ast.Unparen(vs.Values[i]).(*ast.CompositeLit)
					if !ok {
						continue
					}
					if _, isMap := pkgW.TypesInfo.TypeOf(cl).Underlying().(*types.Map); !isMap {
						continue
					}
					table := map[string]string{}
					for _, el := range cl.Elts {
						kv, ok := el.(*ast.KeyValueExpr)
						if !ok {
							continue
						}
						k, ok := ast.Unparen(kv.Key).(*ast.Ident)
						if !ok || !strings.HasPrefix(k.Name, "EventType") {
							continue
						}
						dt := ""
						ast.Inspect(kv.Value, func(n ast.Node) bool {
							if id, ok := n.(*ast.Ident); ok && dt == "" {
								if inst, ok := pkgW.TypesInfo.Instances[id]; ok && inst.TypeArgs != nil && inst.TypeArgs.Len() > 0 {
									if nt := ir.NamedOf(inst.TypeArgs.At(0)); nt != nil {
										dt = nt.Obj().Name()
									}
								}
							}
							if lit, ok := n.(*ast.CompositeLit); ok && dt == "" {
								if nt := ir.NamedOf(pkgW.TypesInfo.TypeOf(lit)); nt != nil {
									for _, im := range impls {
										if im == nt.Obj().Name() {
											dt = im
										}
									}
								}
							}
							return dt == ""
						})
						table[k.Name] = dt
					}
					if len(table) < 2 {
						continue
					}
					tobj := pkgW.TypesInfo.Defs[nm]
					for _, f := range c.P.PkgFuncs("wallet") {
						if !f.MentionsObj(f.Body, true, tobj) {
							continue
						}
						c.Visit(1)
						ob := c.Ob(f, "decoder-covers-all-event-types", cl.Pos())
						var missing []string
						for _, k := range consts {
							if _, ok := table[k]; !ok {
								missing = append(missing, k)
							}
						}
						ob.Check(len(missing) == 0, nil, "the decoder table %s used by %s has no entry for %s: stored or transmitted events of that type cannot be read back", nm.Name, f.Name(), strings.Join(missing, ", "))
						decodeTables[f.Name()] = table
					}
				}
			}
		}
	}
	// decoders agree
	var names []string
	for n := range decodeTables {
		names = append(names, n)
	}
	sort.Strings(names)
	ref := map[string]string{}
	if len(names) > 0 {
		ref = decodeTables[names[0]]
		names = names[1:]
	}
	for _, n := range names {
		ob := c.Ob(nil, "decoders-agree:"+n, 0)
		var diffs []string
		for _, k := range consts {
			if decodeTables[n][k] != ref[k] {
				diffs = append(diffs, k+": "+ref[k]+" vs "+decodeTables[n][k])
			}
		}
		ob.Check(len(diffs) == 0, nil, "two decoders (%s and another) map event types to different data types (%s)", n, strings.Join(diffs, "; "))
	}
	// emitted pairs
	for _, f := range c.P.PkgFuncs("wallet") {
		for _, fn := range append([]*ir.Func{f}, f.Lits...) {
			for _, call := range fn.Calls(false) {
				// calls of a local closure with (id, <EventType const>, <data>, …)
				if call.Fn != nil || len(call.Expr.Args) < 3 {
					continue
				}
				id, ok := ast.Unparen(call.Expr.Args[1]).(*ast.Ident)
				if !ok || !strings.HasPrefix(id.Name, "EventType") {
					continue
				}
				if _, isConst := fn.Info().Uses[id].(*types.Const); !isConst {
					continue
				}
				dt := ""
				if nt := ir.NamedOf(fn.TypeOf(call.Expr.Args[2])); nt != nil {
					dt = nt.Obj().Name()
				}
				c.Visit(1)
				ob := c.Ob(f, "emitted-pair-in-table:"+id.Name, call.Pos())
				ob.Check(ref[id.Name] == dt, nil, "an event of type %s is emitted with data type %s at %s, but the decoders read that type as %s", id.Name, dt, c.P.Pos(call.Pos()), ref[id.Name])
			}
		}
	}
}

// diffTable summarises how one side of the wallet classifies siacoin element
// diffs: the loop over SiacoinElementDiffs() is explored path by path, the
// truth values of the three conditions that matter (d.Created, d.Spent, the
// element's address differs from the wallet's) are carried along each path
// (contradictory combinations are pruned), and the list each path appends to
// is recorded. The spelling of the branching (switch, if chain, early
// continue, inverted tests) is irrelevant.
type diffTable struct {
	found    bool
	created  types.Object // list appended to on paths where Created holds and Spent does not
	spent    types.Object // list appended to on paths where Spent holds and Created does not
	problems []string
}

func walletDiffTable(f *ir.Func) diffTable {
	var t diffTable
	var addr types.Object
	for _, fld := range f.Type.Params.List {
		if ir.IsNamed(f.Info().TypeOf(fld.Type), ir.PkgPath("types"), "Address") {
			for _, nm := range fld.Names {
				addr = f.Info().Defs[nm]
			}
		}
	}
	g := f.Graph()
	// the wallet's address: the Address parameter, or an Address-typed field of the receiver
	isWalletAddr := func(e ast.Expr) bool {
		if addr != nil && f.ObjOf(e) == addr {
			return true
		}
		if sel, ok := ast.Unparen(e).(*ast.SelectorExpr); ok && addr == nil {
			if fld := f.FieldOf(sel); fld != nil && ir.IsNamed(fld.Type(), ir.PkgPath("types"), "Address") {
				if id, ok := ast.Unparen(sel.X).(*ast.Ident); ok && f.Decl != nil && f.Decl.Recv != nil && len(f.Decl.Recv.List) == 1 && len(f.Decl.Recv.List[0].Names) == 1 {
					return f.ObjOf(id) == f.Info().Defs[f.Decl.Recv.List[0].Names[0]]
				}
			}
		}
		return false
	}
	for _, head := range g.Nodes {
		rs, ok := head.AST.(*ast.RangeStmt)
		if !ok || (rs.Value == nil && rs.Key == nil) {
			continue
		}
		// (the list may have been bound to a local first, as a classifying helper's parameter is)
		call, ok := ast.Unparen(origin(f, rs.X)).(*ast.CallExpr)
		if !ok || f.Callee(call) == nil || f.Callee(call).Name() != "SiacoinElementDiffs" {
			continue
		}
		t.found = true
		var d types.Object
		if rs.Value != nil {
			d = f.ObjOf(rs.Value)
		} else {
			// `for i := range diffs { d := &diffs[i] … }`
			key := f.ObjOf(rs.Key)
			for _, w := range f.WritesIn(rs.Body, false) {
				if w.RHS == nil || w.Tok != token.DEFINE {
					continue
				}
				r := ast.Unparen(w.RHS)
				if u, ok := r.(*ast.UnaryExpr); ok && u.Op == token.AND {
					r = ast.Unparen(u.X)
				}
				if ix, ok := r.(*ast.IndexExpr); ok && sameLvalue(f, ix.X, rs.X) && f.ObjOf(ix.Index) == key && key != nil {
					d = f.ObjOf(w.LHS)
				}
			}
		}
		if d == nil {
			continue
		}
		rootedAtD := func(e ast.Expr) bool { o, _ := f.RootObj(e); return o == d && d != nil }
		// atoms: 0 Created, 1 Spent, 2 foreign address
		atom := func(cond ast.Expr) (int, bool, bool) {
			cond = ast.Unparen(cond)
			if sel, ok := cond.(*ast.SelectorExpr); ok && f.ObjOf(sel.X) == d {
				switch sel.Sel.Name {
				case "Created":
					return 0, true, true
				case "Spent":
					return 1, true, true
				}
			}
			if be, ok := cond.(*ast.BinaryExpr); ok && (be.Op == token.NEQ || be.Op == token.EQL) {
				x, y := be.X, be.Y
				if isWalletAddr(x) {
					x, y = y, x
				}
				if isWalletAddr(y) && rootedAtD(x) && ir.IsNamed(f.TypeOf(x), ir.PkgPath("types"), "Address") {
					return 2, be.Op == token.NEQ, true
				}
			}
			return 0, false, false
		}
		// effects: appends to local lists
		targets := map[types.Object]int{}
		var order []types.Object
		appendTarget := func(n *cfgx.Node) types.Object {
			if n.AST == nil {
				return nil
			}
			for _, w := range f.WritesIn(n.AST, false) {
				if w.RHS == nil {
					continue
				}
				if ac, ok := ast.Unparen(w.RHS).(*ast.CallExpr); ok {
					if id, ok := ac.Fun.(*ast.Ident); ok && id.Name == "append" {
						return f.ObjOf(w.LHS)
					}
				}
			}
			return nil
		}
		var body *cfgx.Edge
		for _, e := range head.Succs {
			if e.Kind == cfgx.Br0 {
				body = e
			}
		}
		if body == nil {
			continue
		}
		const effShift = 8
		type outcome struct{ st cfgx.State }
		var outs []cfgx.State
		g.Explore([]*cfgx.Visit{cfgx.StartAfter(body, 0)}, cfgx.Walker{
			AtNode: func(n *cfgx.Node, st cfgx.State) (cfgx.State, bool) {
				if n == head || n.Exit || len(n.Succs) == 0 {
					outs = append(outs, st)
					return st, false
				}
				if o := appendTarget(n); o != nil {
					if _, ok := targets[o]; !ok {
						targets[o] = len(order)
						order = append(order, o)
					}
					st |= 1 << (effShift + targets[o])
				}
				return st, true
			},
			OnEdge: func(e *cfgx.Edge, st cfgx.State) (cfgx.State, bool) {
				if e.Cond == nil || (e.Kind != cfgx.True && e.Kind != cfgx.False) {
					return st, true
				}
				i, pos, ok := atom(e.Cond)
				if !ok {
					return st, true
				}
				want := cfgx.State(2) // false
				if (e.Kind == cfgx.True) == pos {
					want = 1
				}
				cur := (st >> (2 * i)) & 3
				if cur != 0 && cur != want {
					return st, false // contradicts an earlier test on this path
				}
				return st | want<<(2*i), true
			},
		})
		val := func(st cfgx.State, i int) int { return int((st >> (2 * i)) & 3) }
		for _, st := range outs {
			eff := st >> effShift
			if eff == 0 {
				continue
			}
			cr, sp, foreign := val(st, 0), val(st, 1), val(st, 2)
			if foreign != 2 {
				t.problems = append(t.problems, "an element is collected on a path that did not establish that its address is the wallet's")
			}
			if cr == 1 && sp == 1 {
				t.problems = append(t.problems, "an element created and spent in the same block (ephemeral) is collected")
			}
			for i, o := range order {
				if eff&(1<<i) == 0 {
					continue
				}
				switch {
				case cr == 1 && sp != 1:
					if t.created != nil && t.created != o {
						t.problems = append(t.problems, "created elements are collected into two lists")
					}
					t.created = o
				case sp == 1 && cr != 1:
					if t.spent != nil && t.spent != o {
						t.problems = append(t.problems, "spent elements are collected into two lists")
					}
					t.spent = o
				default:
					t.problems = append(t.problems, "an element is collected on a path that established neither Created nor Spent")
				}
			}
			if sp == 0 && cr == 1 || cr == 0 && sp == 1 {
				// the other flag was never tested on this path: ephemeral elements are not excluded
				t.problems = append(t.problems, "an element is collected on a path that did not rule out created-and-spent (ephemeral)")
			}
		}
		if t.created != nil && t.created == t.spent {
			t.problems = append(t.problems, "created and spent elements are collected into the same list")
		}
	}
	return t
}

func c06r3(c *Ctx) {
	applyIdx := c.P.Method("wallet", "UpdateTx", "WalletApplyIndex")
	revertIdx := c.P.Method("wallet", "UpdateTx", "WalletRevertIndex")
	af, rf := walletSteps(c)
	a, r := walletDiffTable(af), walletDiffTable(rf)
	c.VisitGraph(af)
	c.VisitGraph(rf)
	ob := c.Ob(af, "same-case-set", af.Body.Pos())
	switch {
	case !a.found || !r.found:
		ob.Bad(nil, "the apply or the revert step does not iterate over the update's siacoin element diffs")
	case len(a.problems) > 0:
		ob.Bad(nil, "apply step: %s: an element one side ignores (e.g. created and spent in the same block) is stored or removed by the other", a.problems[0])
	case len(r.problems) > 0:
		ob.Pos = c.P.Pos(rf.Body.Pos())
		ob.Bad(nil, "revert step: %s: an element one side ignores (e.g. created and spent in the same block) is stored or removed by the other", r.problems[0])
	default:
		ob.OK("both steps skip ephemeral and foreign elements and split the rest by Created / Spent")
	}
	pos := func(f *ir.Func, fn *types.Func, i int) types.Object {
		for _, call := range f.CallsTo(false, fn) {
			if i < len(call.Expr.Args) {
				return f.ObjOf(call.Expr.Args[i])
			}
		}
		return nil
	}
	ob2 := c.Ob(af, "created-and-spent-in-position", af.Body.Pos())
	ob2.Check(a.created != nil && a.created == pos(af, applyIdx, 1) && a.spent != nil && a.spent == pos(af, applyIdx, 2), nil,
		"WalletApplyIndex must receive (created, spent) = (elements collected where Created holds, elements collected where Spent holds)")
	ob3 := c.Ob(rf, "removed-and-unspent-in-position", rf.Body.Pos())
	ob3.Check(r.created != nil && r.created == pos(rf, revertIdx, 1) && r.spent != nil && r.spent == pos(rf, revertIdx, 2), nil,
		"WalletRevertIndex must receive (removed, unspent) = (elements collected where Created holds, elements collected where Spent holds)")
}

// resultConcreteType: the concrete type of the i-th result of a call to a
// repository function whose every return hands back, in that position, a value
// of one named type or of one of the function's type parameters (then the
// call's type argument).
func resultConcreteType(f *ir.Func, call *ast.CallExpr, i int) types.Type {
	fn := f.Callee(call)
	callee := f.P.FuncOf(fn)
	if callee == nil {
		return nil
	}
	// explicit or inferred instantiation
	var targs *types.TypeList
	fun := ast.Unparen(call.Fun)
	if ix, ok := fun.(*ast.IndexExpr); ok {
		fun = ast.Unparen(ix.X)
	} else if ix, ok := fun.(*ast.IndexListExpr); ok {
		fun = ast.Unparen(ix.X)
	}
	var id *ast.Ident
	switch t := fun.(type) {
	case *ast.Ident:
		id = t
	case *ast.SelectorExpr:
		id = t.Sel
	}
	if id != nil {
		if inst, ok := f.Info().Instances[id]; ok {
			targs = inst.TypeArgs
		}
	}
	var out types.Type
	for _, r := range callee.Graph().Returns() {
		rs, ok := r.AST.(*ast.ReturnStmt)
		if !ok || i >= len(rs.Results) {
			return nil
		}
		t := callee.TypeOf(rs.Results[i])
		if tp, ok := t.(*types.TypeParam); ok {
			if targs == nil || tp.Index() >= targs.Len() {
				return nil
			}
			t = targs.At(tp.Index())
		}
		if t == nil || (out != nil && !types.Identical(out, t)) {
			return nil
		}
		out = t
	}
	return out
}

// c06r4: one element can pay the wallet in more than one way (a v2 contract's
// host *and* renter output may both carry the wallet's address). In every
// function of package wallet that is given the wallet's address (helpers expanded), two tests that
// compare *different* address operands of the same loop element with the
// wallet's address must be independent: the second is reached whatever the
// first decided. An `else if` between them drops the second payout's event
// while its output is still stored, so the ledger no longer sums to the balance.
func c06r4(c *Ctx) {
	vs := c.P.Views("wallet", ir.ExpandOpt{Key: "all"})
	n := 0
	for _, f := range vs.Roots {
		g := f.Graph()
		type test struct {
			node    *cfgx.Node
			operand ast.Expr
			head    *cfgx.Node
			addr    types.Object
		}
		var tests []test
		for _, m := range g.Nodes {
			if m.AST == nil || m.Block == nil || m.Block.Cond != m.AST || len(m.Succs) != 2 {
				continue
			}
			be, ok := ast.Unparen(m.AST.(ast.Expr)).(*ast.BinaryExpr)
			if !ok || (be.Op != token.EQL && be.Op != token.NEQ) {
				continue
			}
			// <element path>.Address (or a derived address) compared with a variable holding the wallet's address
			x, y := be.X, be.Y
			if _, isVar := f.ObjOf(x).(*types.Var); isVar {
				x, y = y, x
			}
			addr, isVar := f.ObjOf(y).(*types.Var)
			if !isVar || f.ObjOf(x) != nil || !ir.IsNamed(f.TypeOf(x), ir.PkgPath("types"), "Address") || !ir.IsNamed(f.TypeOf(y), ir.PkgPath("types"), "Address") {
				continue
			}
			head, _, _ := enclosingRange(f, m)
			if head == nil {
				continue
			}
			tests = append(tests, test{m, x, head, addr})
		}
		for i := 0; i < len(tests); i++ {
			for j := 0; j < len(tests); j++ {
				a, b := tests[i], tests[j]
				if i == j || a.head != b.head || a.addr != b.addr || a.node.Pos() >= b.node.Pos() || sameLvalue(f, a.operand, b.operand) {
					continue
				}
				ra, _ := f.RootObj(a.operand)
				rb, _ := f.RootObj(b.operand)
				if ra == nil || ra != rb {
					continue
				}
				n++
				c.VisitGraph(f)
				ob := c.Ob(f, "address-tests-independent", b.node.Pos())
				good := true
				for _, e := range a.node.Succs {
					r := g.Reach([]*cfgx.Visit{cfgx.StartAfter(e, 0)}, func(m *cfgx.Node) bool { return m == a.head })
					if _, ok := r[b.node]; !ok {
						good = false
					}
				}
				ob.Check(good, nil, "the test of %s at %s is reached only on one outcome of the test of %s at %s: an element that pays the wallet both ways yields one event instead of two, and the events no longer sum to the stored outputs", ir.ExprString(b.operand), c.P.Pos(b.node.Pos()), ir.ExprString(a.operand), c.P.Pos(a.node.Pos()))
			}
		}
	}
	if n == 0 {
		// no element is tested twice in one loop body (e.g. the payouts are iterated from a table and tested by one
		// condition): independence holds by construction
		c.Visit(1)
		c.Ob(nil, "address-tests-independent", 0).OK("no loop body tests two address operands of one element against the wallet's address")
	}
}

// c06r5: relevance predicates look at every output and every input.
func c06r5(c *Ctx) {
	vs := c.P.Views("wallet", ir.ExpandOpt{Key: "all"})
	for _, bf := range c.P.PkgFuncs("wallet") {
		sig := bf.Obj.Type().(*types.Signature)
		if sig.Recv() != nil || sig.Params().Len() != 2 || sig.Results().Len() != 1 || !isBasicKind(types.Bool)(sig.Results().At(0).Type()) {
			continue
		}
		t0 := sig.Params().At(0).Type()
		if !(ir.IsNamed(t0, ir.PkgPath("types"), "Transaction") || ir.IsNamed(t0, ir.PkgPath("types"), "V2Transaction")) || !ir.IsNamed(sig.Params().At(1).Type(), ir.PkgPath("types"), "Address") {
			continue
		}
		f := vs.Of(bf)
		g := f.Graph()
		c.VisitGraph(f)
		var txn, addr types.Object
		i := 0
		for _, fld := range f.Type.Params.List {
			for _, nm := range fld.Names {
				if i == 0 {
					txn = f.Info().Defs[nm]
				} else {
					addr = f.Info().Defs[nm]
				}
				i++
			}
		}
		for _, list := range []string{"SiacoinOutputs", "SiacoinInputs"} {
			ob := c.Ob(f, "every-element-tested:"+list, f.Body.Pos())
			if txn == nil || addr == nil {
				ob.Unknown("unnamed parameters")
				continue
			}
			// no fixed-position subscript of the list
			fixed := ""
			ir.Walk(f.Body, true, func(x ast.Node) {
				ix, ok := x.(*ast.IndexExpr)
				if !ok {
					return
				}
				sel, ok := ast.Unparen(ix.X).(*ast.SelectorExpr)
				if !ok || sel.Sel.Name != list || f.ObjOf(sel.X) != txn {
					return
				}
				if _, isConst := f.ConstInt(ix.Index); isConst {
					fixed = c.P.Pos(ix.Pos())
				}
			})
			if fixed != "" {
				ob.Bad(nil, "%s tests the element at a fixed position of the transaction's %s (%s): a transaction in which the wallet's element has another position is not recognised as relevant, so its event is missing although the wallet's outputs changed", f.Name(), list, fixed)
				continue
			}
			// a range over txn.<list> whose body compares an address of the element with addr and returns true on equality
			good := false
			for _, head := range g.Nodes {
				rs, ok := head.AST.(*ast.RangeStmt)
				if !ok || rs.Value == nil {
					continue
				}
				sel, ok := ast.Unparen(rs.X).(*ast.SelectorExpr)
				if !ok || sel.Sel.Name != list || f.ObjOf(sel.X) != txn {
					continue
				}
				elem := f.ObjOf(rs.Value)
				for _, n := range g.Nodes {
					if n.AST == nil || !containsNode(rs.Body, n.AST) || n.Block == nil || n.Block.Cond != n.AST || len(n.Succs) != 2 {
						continue
					}
					be, ok := ast.Unparen(n.AST.(ast.Expr)).(*ast.BinaryExpr)
					if !ok || (be.Op != token.EQL && be.Op != token.NEQ) {
						continue
					}
					x, y := be.X, be.Y
					if f.ObjOf(x) == addr {
						x, y = y, x
					}
					if f.ObjOf(y) != addr || !f.MentionsObj(x, false, elem) {
						continue
					}
					eq := n.Succs[0]
					if be.Op == token.NEQ {
						eq = n.Succs[1]
					}
					// on equality a `return true` follows without coming back to the loop head
					for m := range f.ReachableFromEdges([]*cfgx.Edge{eq}, func(k *cfgx.Node) bool { return k == head }) {
						if ret, ok := m.AST.(*ast.ReturnStmt); ok && len(ret.Results) == 1 {
							if tv, ok := f.Info().Types[ret.Results[0]]; ok && tv.Value != nil && tv.Value.String() == "true" {
								good = true
							}
						}
					}
				}
			}
			ob.Check(good, nil, "%s does not range over the transaction's %s comparing each element's address with the wallet address: transactions that touch the wallet only through that list (or through an element at an unexpected position) produce no event", f.Name(), list)
		}
	}
}

// c06r6: removing the current element while walking a list by position.
func c06r6(c *Ctx) {
	for _, f := range c.P.Funcs {
		g := f.Graph()
		visited := false
		ir.Walk(f.Body, false, func(x ast.Node) {
			var pos types.Object
			var body *ast.BlockStmt
			var back *cfgx.Node // where the loop comes round: the post statement or the range head
			loop, _ := x.(ast.Stmt)
			switch l := x.(type) {
			case *ast.ForStmt:
				inc, ok := l.Post.(*ast.IncDecStmt)
				if !ok || inc.Tok != token.INC {
					return
				}
				pos, body = f.ObjOf(inc.X), l.Body
				for _, n := range g.Nodes {
					if n.AST == ast.Node(l.Post) {
						back = n
					}
				}
			case *ast.RangeStmt:
				if l.Key == nil {
					return
				}
				pos, body, back = f.ObjOf(l.Key), l.Body, g.NodeOf(l)
			default:
				return
			}
			if pos == nil || pos.Name() == "_" || back == nil {
				return
			}
			isPos := func(e ast.Expr) bool { return f.ObjOf(e) == pos }
			isPosPlus1 := func(e ast.Expr) bool {
				be, ok := ast.Unparen(e).(*ast.BinaryExpr)
				if !ok || be.Op != token.ADD {
					return false
				}
				v, isConst := f.ConstInt(be.Y)
				return isPos(be.X) && isConst && v == 1
			}
			// removal nodes inside the body: S = slices.Delete(S, i, i+1) / S = append(S[:i], S[i+1:]...)
			for _, n := range g.Nodes {
				if n.AST == nil || !containsNode(body, n.AST) {
					continue
				}
				removes := false
				for _, w := range f.WritesIn(n.AST, false) {
					call, ok := ast.Unparen(w.RHS).(*ast.CallExpr)
					if w.RHS == nil || !ok {
						continue
					}
					if fn := f.Callee(call); fn != nil && fn.Pkg() != nil && fn.Pkg().Path() == "slices" && fn.Name() == "Delete" && len(call.Args) == 3 {
						if isPos(call.Args[1]) && isPosPlus1(call.Args[2]) {
							removes = true
						}
					}
					if id, ok := call.Fun.(*ast.Ident); ok && id.Name == "append" && len(call.Args) == 2 && call.Ellipsis.IsValid() {
						a, okA := ast.Unparen(call.Args[0]).(*ast.SliceExpr)
						b, okB := ast.Unparen(call.Args[1]).(*ast.SliceExpr)
						if okA && okB && a.Low == nil && a.High != nil && isPos(a.High) && b.Low != nil && isPosPlus1(b.Low) && b.High == nil {
							removes = true
						}
					}
				}
				if !removes {
					continue
				}
				if !visited {
					c.VisitGraph(f)
					visited = true
				}
				ob := c.Ob(f, "removal-does-not-skip", n.Pos())
				compensates := func(m *cfgx.Node) bool {
					if m.AST == nil {
						return false
					}
					for _, w := range f.WritesIn(m.AST, false) {
						if f.ObjOf(w.LHS) == pos && (w.Tok == token.DEC || w.Tok == token.SUB_ASSIGN) {
							return true
						}
					}
					return false
				}
				var st []*cfgx.Visit
				for _, e := range n.Succs {
					st = append(st, cfgx.StartAfter(e, 0))
				}
				// (paths that leave the loop are not followed: a later, new walk starts at its own first position)
				inside := func(m *cfgx.Node) bool { return m == back || nodeInStmt(m, loop) }
				if v, ok := g.Reach(st, func(m *cfgx.Node) bool { return compensates(m) || !inside(m) })[back]; ok {
					ob.Bad(c.Witness(v), "after the element at the current position is removed at %s the loop moves on to the next position: the element that slid into the freed position is never examined (when two adjacent elements are to be removed the second survives)", c.P.Pos(n.Pos()))
				} else {
					ob.OK("the loop is left, or the position is decremented, after the removal")
				}
			}
		})
	}
}

// c06r7: a store's revert step removes the events of the reverted index whenever it succeeds — also for a block that
// created and spent the wallet's outputs internally (no element diffs, but events). In every repository
// implementation of UpdateTx.WalletRevertIndex every success return lies behind a write of the store's event list,
// and the comparison that decides which events go uses the index parameter.
func c06r7(c *Ctx) {
	iface := c.P.Method("wallet", "UpdateTx", "WalletRevertIndex")
	eventT := c.P.Named("wallet", "Event")
	n := 0
	for _, raw := range c.P.Funcs {
		if raw.Obj == nil || raw.Lit != nil || raw.Obj.Name() != iface.Name() || raw.Obj.Type().(*types.Signature).Recv() == nil {
			continue
		}
		if !types.Identical(types.NewSignatureType(nil, nil, nil, raw.Obj.Type().(*types.Signature).Params(), raw.Obj.Type().(*types.Signature).Results(), false),
			types.NewSignatureType(nil, nil, nil, iface.Type().(*types.Signature).Params(), iface.Type().(*types.Signature).Results(), false)) {
			continue
		}
		f := c.P.Expand(raw, ir.ExpandOpt{Key: "all"})
		g := f.Graph()
		c.VisitGraph(f)
		n++
		ob := c.Ob(f, "revert-drops-events-on-every-path", f.Body.Pos())
		isEvents := func(t types.Type) bool {
			sl, ok := t.Underlying().(*types.Slice)
			return ok && types.Identical(sl.Elem(), eventT)
		}
		writesEvents := func(nd *cfgx.Node) bool {
			if nd.AST == nil {
				return false
			}
			for _, w := range f.WritesIn(nd.AST, false) {
				if fld := f.FieldOf(w.LHS); fld != nil && isEvents(fld.Type()) {
					return true
				}
			}
			return false
		}
		any := false
		for _, nd := range g.Nodes {
			if writesEvents(nd) {
				any = true
			}
		}
		if !any {
			ob.Bad(nil, "%s never rewrites the store's event list: events of reverted blocks stay", f.Name())
			continue
		}
		reach := g.Reach([]*cfgx.Visit{cfgx.StartAt(g.Entry, 0)}, writesEvents)
		bad := false
		for _, r := range g.Returns() {
			if _, isRet := r.AST.(*ast.ReturnStmt); !isRet || f.ClassifyReturn(r) == ir.RetError {
				continue
			}
			if v, leak := reach[r]; leak {
				ob.Bad(c.Witness(v), "%s can return success at %s without having filtered the event list: a reverted block that only passed coins through the wallet (no element diffs) leaves its events behind", f.Name(), c.P.Pos(r.Pos()))
				bad = true
				break
			}
		}
		if !bad {
			ob.OK("every success return follows the rewrite of the event list")
		}
	}
	if n == 0 {
		ir.Fail("no repository implementation of UpdateTx.WalletRevertIndex found")
	}
}

// c06r8: the index a revert is announced under is the reverted block's own: its id comes from that update's
// Block.ID() (and the height from the state the update leads to, plus one). The store deletes events by exactly this
// index; the parent's index — what State.Index holds — deletes the events of a block that stays and keeps those of
// the block that goes.
func c06r8(c *Ctx) {
	revertIdx := c.P.Method("wallet", "UpdateTx", "WalletRevertIndex")
	n := 0
	for _, f := range c.P.Views("wallet", ir.ExpandOpt{Key: "all"}).Roots {
		calls := f.CallsTo(false, revertIdx)
		if len(calls) == 0 {
			continue
		}
		g := f.Graph()
		c.VisitGraph(f)
		for _, call := range calls {
			n++
			ob := c.Ob(f, "reverted-index-is-the-blocks-own", call.Pos())
			at := g.NodeContaining(call.Pos())
			// the values the index argument can hold here
			var vals []ast.Expr
			arg := ast.Unparen(call.Expr.Args[0])
			if o, ok := f.ObjOf(arg).(*types.Var); ok && !o.IsField() {
				for _, d := range ReachingDefs(f, o, at) {
					if d == nil || d.AST == nil {
						vals = append(vals, nil) // a parameter: the caller's business
						continue
					}
					for _, w := range f.WritesIn(d.AST, false) {
						if f.ObjOf(w.LHS) == types.Object(o) {
							vals = append(vals, w.RHS)
						}
					}
				}
			} else {
				vals = append(vals, arg)
			}
			ok, why := true, ""
			for _, v := range vals {
				if v == nil {
					continue
				}
				cl, isLit := ast.Unparen(v).(*ast.CompositeLit)
				if !isLit {
					// a declaration without value is a zero index that a later assignment replaces on every path
					// (reaching definitions list it only if it can arrive)
					ok, why = false, ir.ExprString(v)
					continue
				}
				idOK := false
				for _, el := range cl.Elts {
					kv, isKV := el.(*ast.KeyValueExpr)
					if !isKV {
						continue
					}
					if k, isID := kv.Key.(*ast.Ident); isID && k.Name == "ID" {
						if idc, isCall := ast.Unparen(origin(f, kv.Value)).(*ast.CallExpr); isCall {
							if sel, isSel := ast.Unparen(idc.Fun).(*ast.SelectorExpr); isSel && sel.Sel.Name == "ID" {
								if inner, isSel := ast.Unparen(sel.X).(*ast.SelectorExpr); isSel && inner.Sel.Name == "Block" {
									idOK = true
								}
							}
						}
					}
				}
				if !idOK {
					ok, why = false, ir.ExprString(v)
				}
			}
			ob.Check(ok, nil, "the index handed to WalletRevertIndex at %s can be %s, which is not {ID: <update>.Block.ID(), …}: the store then deletes the events of another block (the parent, which stays) and keeps the reverted block's", c.P.Pos(call.Pos()), why)
		}
	}
	if n == 0 {
		ir.Fail("the wallet does not call UpdateTx.WalletRevertIndex")
	}
}
