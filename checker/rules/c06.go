package rules

import (
	"go/ast"
	"go/types"
	"sort"
	"strings"

	"sialint/internal/cfgx"
	"sialint/internal/ir"
)

func init() {
	Explanations["C06"] = "Decides structural necessary conditions of 'the wallet ledger equals the chain's truth across reorgs' in package wallet: (R1) order — the apply step moves existing proofs (UpdateWalletSiacoinElementProofs) before WalletApplyIndex, the revert step calls WalletRevertIndex and then moves proofs on every success path, and UpdateChainState finishes all reverts before the first apply; (R2) exhaustiveness — every type implementing the event-data interface has a case in each type switch over Event.Data (four flow methods and the encoder), every EventType* constant has a case in both decoding switches, both decoders map each constant to the same data type, and every (type constant, data type) pair emitted by the event builder appears in that table; (R3) filter agreement — the apply and revert steps classify siacoin element diffs with the same case set (ephemeral skipped, foreign address skipped, created, spent) and hand created↔removed and spent↔unspent to the store in the corresponding argument positions. NOT decided: equality of the utxo set and events with a linear replay, maturity heights, inflow − outflow = balance."

	register(&Rule{ID: "C06.R1", Prop: "C06", Floor: 4, Doc: "proof-move / index-update order on apply and revert; reverts before applies", Run: c06r1})
	register(&Rule{ID: "C06.R2", Prop: "C06", Floor: 8, Doc: "event tables are exhaustive and agree (type switches, decoders, emitted pairs)", Run: c06r2})
	register(&Rule{ID: "C06.R3", Prop: "C06", Floor: 3, Doc: "apply and revert classify element diffs identically and pass them in corresponding positions", Run: c06r3})
}

func walletSteps(c *Ctx) (apply, revert *ir.Func) {
	for _, f := range c.P.MethodsOf("wallet", "SingleAddressWallet") {
		if f.Type.Params == nil {
			continue
		}
		for _, fld := range f.Type.Params.List {
			t := f.Info().TypeOf(fld.Type)
			if ir.IsNamed(t, ir.PkgPath("chain"), "ApplyUpdate") {
				apply = f
			}
			if ir.IsNamed(t, ir.PkgPath("chain"), "RevertUpdate") {
				revert = f
			}
		}
	}
	if apply == nil || revert == nil {
		ir.Fail("wallet apply/revert steps (methods taking chain.ApplyUpdate / chain.RevertUpdate) not found")
	}
	return
}

func c06r1(c *Ctx) {
	proofs := c.P.Method("wallet", "UpdateTx", "UpdateWalletSiacoinElementProofs")
	applyIdx := c.P.Method("wallet", "UpdateTx", "WalletApplyIndex")
	revertIdx := c.P.Method("wallet", "UpdateTx", "WalletRevertIndex")
	af, rf := walletSteps(c)
	{
		g := af.Graph()
		c.VisitGraph(af)
		ob := c.Ob(af, "proofs-moved-before-apply-index", af.Body.Pos())
		var edges []*cfgx.Edge
		for _, pc := range af.CallsTo(false, proofs) {
			edges = append(edges, af.CheckOf(pc.Expr).Succ...)
		}
		good := len(af.CallsTo(false, applyIdx)) > 0
		for _, ac := range af.CallsTo(false, applyIdx) {
			if !af.OnlyVia(g.NodeContaining(ac.Pos()), edges) {
				good = false
			}
		}
		ob.Check(good, nil, "WalletApplyIndex is reachable before the existing elements' proofs were moved to the new block: elements created by the block would be updated with their own block's update (or stored proofs go stale)")
		ob2 := c.Ob(af, "apply-index-on-every-success", af.Body.Pos())
		isAI := func(n *cfgx.Node) bool { _, ok := af.NodeCallsTo(n, applyIdx); return ok }
		bad := false
		for ret, v := range g.Reach([]*cfgx.Visit{cfgx.StartAt(g.Entry, 0)}, isAI) {
			if _, isRet := ret.AST.(*ast.ReturnStmt); isRet && af.ClassifyReturn(ret) != ir.RetError {
				ob2.Bad(c.Witness(v), "the apply step can report success without WalletApplyIndex")
				bad = true
			}
		}
		if !bad {
			ob2.OK("every success return passes WalletApplyIndex")
		}
	}
	{
		g := rf.Graph()
		c.VisitGraph(rf)
		ob := c.Ob(rf, "revert-index-before-proofs-moved", rf.Body.Pos())
		var edges []*cfgx.Edge
		for _, rc := range rf.CallsTo(false, revertIdx) {
			edges = append(edges, rf.CheckOf(rc.Expr).Succ...)
		}
		good := len(rf.CallsTo(false, proofs)) > 0
		for _, pc := range rf.CallsTo(false, proofs) {
			if !rf.OnlyVia(g.NodeContaining(pc.Pos()), edges) {
				good = false
			}
		}
		ob.Check(good, nil, "on revert the proofs are moved before (or without) WalletRevertIndex: elements the block created would still be present while proofs are trimmed")
		ob2 := c.Ob(rf, "proofs-moved-on-every-success", rf.Body.Pos())
		isP := func(n *cfgx.Node) bool { _, ok := rf.NodeCallsTo(n, proofs); return ok }
		bad := false
		for ret, v := range g.Reach([]*cfgx.Visit{cfgx.StartAt(g.Entry, 0)}, isP) {
			if _, isRet := ret.AST.(*ast.ReturnStmt); isRet && rf.ClassifyReturn(ret) != ir.RetError {
				ob2.Bad(c.Witness(v), "the revert step can report success at %s without moving the remaining elements' proofs: every revert must trim and rewrite all stored proofs, also when the block did not touch the wallet", c.P.Pos(ret.Pos()))
				bad = true
			}
		}
		if !bad {
			ob2.OK("every success return passes the proof move")
		}
	}
	// reverts before applies in the exported driver
	for _, f := range c.P.MethodsOf("wallet", "SingleAddressWallet") {
		rcalls, acalls := f.CallsTo(false, rf.Obj), f.CallsTo(false, af.Obj)
		if len(rcalls) == 0 || len(acalls) == 0 {
			continue
		}
		g := f.Graph()
		c.VisitGraph(f)
		ob := c.Ob(f, "all-reverts-before-first-apply", f.Body.Pos())
		var exits []*cfgx.Edge
		for _, rc := range rcalls {
			if head, exit, _ := enclosingRange(f, g.NodeContaining(rc.Pos())); head != nil {
				exits = append(exits, exit)
			}
		}
		good := true
		for _, ac := range acalls {
			if !f.OnlyVia(g.NodeContaining(ac.Pos()), exits) {
				good = false
			}
		}
		ob.Check(good, nil, "an update is applied before all reverts were processed: the wallet follows the update stream out of order")
	}
}

func c06r2(c *Ctx) {
	pkg := c.P.Package("wallet")
	scope := pkg.Types.Scope()
	dataIface := c.P.Named("wallet", "EventData")
	it := dataIface.Underlying().(*types.Interface)
	// implementers
	var impls []string
	for _, name := range scope.Names() {
		tn, ok := scope.Lookup(name).(*types.TypeName)
		if !ok || tn.IsAlias() {
			continue
		}
		if _, isIface := tn.Type().Underlying().(*types.Interface); isIface {
			continue
		}
		if types.Implements(tn.Type(), it) {
			impls = append(impls, name)
		}
	}
	sort.Strings(impls)
	// type constants
	var consts []string
	for _, name := range scope.Names() {
		if cn, ok := scope.Lookup(name).(*types.Const); ok && strings.HasPrefix(name, "EventType") {
			if b, ok := cn.Type().Underlying().(*types.Basic); ok && b.Info()&types.IsString != 0 {
				consts = append(consts, name)
			}
		}
	}
	sort.Strings(consts)
	if len(impls) < 2 || len(consts) < 2 {
		ir.Fail("event data implementers / EventType constants not found")
	}
	dataField := c.P.Field("wallet", "Event", "Data")
	typeField := c.P.Field("wallet", "Event", "Type")
	decodeTables := map[string]map[string]string{}
	for _, f := range c.P.PkgFuncs("wallet") {
		info := f.Info()
		ir.Walk(f.Body, false, func(x ast.Node) {
			switch sw := x.(type) {
			case *ast.TypeSwitchStmt:
				// switch … := e.Data.(type)
				var subj ast.Expr
				switch a := sw.Assign.(type) {
				case *ast.AssignStmt:
					if ta, ok := a.Rhs[0].(*ast.TypeAssertExpr); ok {
						subj = ta.X
					}
				case *ast.ExprStmt:
					if ta, ok := a.X.(*ast.TypeAssertExpr); ok {
						subj = ta.X
					}
				}
				if subj == nil || f.FieldOf(subj) != dataField {
					return
				}
				c.Visit(1)
				ob := c.Ob(f, "type-switch-covers-all-event-data", sw.Pos())
				seen := map[string]bool{}
				for _, cl := range sw.Body.List {
					for _, e := range cl.(*ast.CaseClause).List {
						if n := ir.NamedOf(info.TypeOf(e)); n != nil {
							seen[n.Obj().Name()] = true
						}
					}
				}
				var missing []string
				for _, im := range impls {
					if !seen[im] {
						missing = append(missing, im)
					}
				}
				ob.Check(len(missing) == 0, nil, "the type switch over Event.Data in %s has no case for %s: events of that kind contribute nothing (or are not encoded), so inflow − outflow no longer equals the balance", f.Name(), strings.Join(missing, ", "))
			case *ast.SwitchStmt:
				if sw.Tag == nil {
					return
				}
				isType := f.FieldOf(sw.Tag) == typeField
				if sel, ok := ast.Unparen(sw.Tag).(*ast.SelectorExpr); ok && sel.Sel.Name == "Type" && !isType {
					// the JSON shadow struct's Type field
					if b, ok := info.TypeOf(sw.Tag).Underlying().(*types.Basic); ok && b.Info()&types.IsString != 0 {
						isType = true
					}
				}
				if !isType {
					return
				}
				c.Visit(1)
				ob := c.Ob(f, "decoder-covers-all-event-types", sw.Pos())
				table := map[string]string{}
				for _, cl := range sw.Body.List {
					cc := cl.(*ast.CaseClause)
					// data type assigned to .Data in this clause
					dt := ""
					for _, st := range cc.Body {
						ast.Inspect(st, func(n ast.Node) bool {
							as, ok := n.(*ast.AssignStmt)
							if !ok || len(as.Lhs) != 1 {
								return true
							}
							if sel, ok := ast.Unparen(as.Lhs[0]).(*ast.SelectorExpr); ok && sel.Sel.Name == "Data" {
								if nt := ir.NamedOf(info.TypeOf(as.Rhs[0])); nt != nil {
									dt = nt.Obj().Name()
								}
							}
							return true
						})
					}
					for _, e := range cc.List {
						if id, ok := ast.Unparen(e).(*ast.Ident); ok {
							table[id.Name] = dt
						}
					}
				}
				var missing []string
				for _, k := range consts {
					if _, ok := table[k]; !ok {
						missing = append(missing, k)
					}
				}
				ob.Check(len(missing) == 0, nil, "the decoder switch in %s has no case for %s: stored or transmitted events of that type cannot be read back", f.Name(), strings.Join(missing, ", "))
				decodeTables[f.Name()] = table
			}
		})
	}
	// decoders agree
	var names []string
	for n := range decodeTables {
		names = append(names, n)
	}
	sort.Strings(names)
	ref := map[string]string{}
	if len(names) > 0 {
		ref = decodeTables[names[0]]
	}
	for _, n := range names[1:] {
		ob := c.Ob(nil, "decoders-agree:"+n, 0)
		var diffs []string
		for _, k := range consts {
			if decodeTables[n][k] != ref[k] {
				diffs = append(diffs, k+": "+ref[k]+" vs "+decodeTables[n][k])
			}
		}
		ob.Check(len(diffs) == 0, nil, "%s and %s map event types to different data types (%s)", names[0], n, strings.Join(diffs, "; "))
	}
	// emitted pairs
	for _, f := range c.P.PkgFuncs("wallet") {
		for _, fn := range append([]*ir.Func{f}, f.Lits...) {
			for _, call := range fn.Calls(false) {
				// calls of a local closure with (id, <EventType const>, <data>, …)
				if call.Fn != nil || len(call.Expr.Args) < 3 {
					continue
				}
				id, ok := ast.Unparen(call.Expr.Args[1]).(*ast.Ident)
				if !ok || !strings.HasPrefix(id.Name, "EventType") {
					continue
				}
				if _, isConst := fn.Info().Uses[id].(*types.Const); !isConst {
					continue
				}
				dt := ""
				if nt := ir.NamedOf(fn.TypeOf(call.Expr.Args[2])); nt != nil {
					dt = nt.Obj().Name()
				}
				c.Visit(1)
				ob := c.Ob(f, "emitted-pair-in-table:"+id.Name, call.Pos())
				ob.Check(ref[id.Name] == dt, nil, "an event of type %s is emitted with data type %s at %s, but the decoders read that type as %s", id.Name, dt, c.P.Pos(call.Pos()), ref[id.Name])
			}
		}
	}
}

func c06r3(c *Ctx) {
	applyIdx := c.P.Method("wallet", "UpdateTx", "WalletApplyIndex")
	revertIdx := c.P.Method("wallet", "UpdateTx", "WalletRevertIndex")
	af, rf := walletSteps(c)
	type side struct {
		f     *ir.Func
		cases map[string]types.Object // normalised condition → variable appended to ("" for skip)
		ok    bool
	}
	analyse := func(f *ir.Func) side {
		s := side{f: f, cases: map[string]types.Object{}}
		var addr types.Object
		for _, fld := range f.Type.Params.List {
			if ir.IsNamed(f.Info().TypeOf(fld.Type), ir.PkgPath("types"), "Address") {
				for _, nm := range fld.Names {
					addr = f.Info().Defs[nm]
				}
			}
		}
		ir.Walk(f.Body, false, func(x ast.Node) {
			rs, ok := x.(*ast.RangeStmt)
			if !ok || rs.Value == nil {
				return
			}
			call, ok := ast.Unparen(rs.X).(*ast.CallExpr)
			if !ok || f.Callee(call) == nil || f.Callee(call).Name() != "SiacoinElementDiffs" {
				return
			}
			d := f.ObjOf(rs.Value)
			ir.Walk(rs.Body, false, func(y ast.Node) {
				sw, ok := y.(*ast.SwitchStmt)
				if !ok || sw.Tag != nil {
					return
				}
				s.ok = true
				for _, cl := range sw.Body.List {
					cc := cl.(*ast.CaseClause)
					if cc.List == nil {
						continue
					}
					cond := ir.ExprString(cc.List[0])
					if d != nil {
						cond = strings.ReplaceAll(cond, d.Name()+".", "d.")
					}
					if addr != nil {
						cond = strings.ReplaceAll(cond, " "+addr.Name(), " addr")
					}
					var target types.Object
					for _, w := range f.WritesIn(&ast.BlockStmt{List: cc.Body}, false) {
						if w.RHS != nil {
							if ac, ok := ast.Unparen(w.RHS).(*ast.CallExpr); ok {
								if id, ok := ac.Fun.(*ast.Ident); ok && id.Name == "append" {
									target = f.ObjOf(w.LHS)
								}
							}
						}
					}
					s.cases[cond] = target
				}
			})
		})
		return s
	}
	a, r := analyse(af), analyse(rf)
	c.VisitGraph(af)
	c.VisitGraph(rf)
	ob := c.Ob(af, "same-case-set", af.Body.Pos())
	keys := func(m map[string]types.Object) string {
		var ks []string
		for k := range m {
			ks = append(ks, k)
		}
		sort.Strings(ks)
		return strings.Join(ks, " | ")
	}
	ob.Check(a.ok && r.ok && keys(a.cases) == keys(r.cases), nil, "the apply step classifies siacoin element diffs by {%s} but the revert step by {%s}: an element one side ignores (e.g. created and spent in the same block) is stored or removed by the other", keys(a.cases), keys(r.cases))
	pos := func(f *ir.Func, fn *types.Func, i int) types.Object {
		for _, call := range f.CallsTo(false, fn) {
			if i < len(call.Expr.Args) {
				return f.ObjOf(call.Expr.Args[i])
			}
		}
		return nil
	}
	ob2 := c.Ob(af, "created-and-spent-in-position", af.Body.Pos())
	ob2.Check(a.cases["d.Created"] != nil && a.cases["d.Created"] == pos(af, applyIdx, 1) && a.cases["d.Spent"] != nil && a.cases["d.Spent"] == pos(af, applyIdx, 2), nil,
		"WalletApplyIndex must receive (created, spent) = (elements of the Created case, elements of the Spent case)")
	ob3 := c.Ob(rf, "removed-and-unspent-in-position", rf.Body.Pos())
	ob3.Check(r.cases["d.Created"] != nil && r.cases["d.Created"] == pos(rf, revertIdx, 1) && r.cases["d.Spent"] != nil && r.cases["d.Spent"] == pos(rf, revertIdx, 2), nil,
		"WalletRevertIndex must receive (removed, unspent) = (elements of the Created case, elements of the Spent case)")
}
