package rules

import (
	"go/ast"
	"go/token"
	"go/types"

	"sialint/internal/cfgx"
	"sialint/internal/ir"
)

// TaintCfg configures the flow-insensitive local taint analysis, which runs
// over one declared function together with all its nested literals.
type TaintCfg struct {
	Top *ir.Func
	// Source marks expressions that introduce taint.
	Source func(fn *ir.Func, e ast.Expr) bool
	// SourceObj marks objects (e.g. parameters) tainted from the start.
	SourceObj func(obj types.Object) bool
	// Sanitizer marks calls whose result is clean whatever their operands.
	Sanitizer func(fn *ir.Func, call *ast.CallExpr) bool
	// ElemCarries: elements / fields read out of a tainted value are tainted
	// (deep sharing). When false only the container itself is tainted
	// (slice-header sharing) and slices.Clone cleans it.
	ElemCarries bool
	// CallCarries decides whether a (non-builtin, non-closure) call's result
	// is tainted when its receiver or an argument is. Default: methods on a
	// tainted receiver and plain calls do NOT carry.
	CallCarries func(fn *ir.Func, call *ast.CallExpr) bool
	// ValueTaint tracks derivation of data rather than sharing of memory:
	// fields/elements of any type (also pure values) read from a tainted value
	// are tainted. Implies ElemCarries.
	ValueTaint bool
	// SkipWrite lets a rule exempt particular assignments from propagating.
	SkipWrite func(fn *ir.Func, w ir.Write) bool
}

// Taint is the result of the analysis.
type Taint struct {
	cfg      TaintCfg
	objs     map[types.Object]bool
	litRet   map[*ir.Func]bool         // literal returns a tainted value
	closures map[types.Object]*ir.Func // local variable → literal bound to it
	funcs    []*ir.Func
	changed  bool
}

// RunTaint computes the fixpoint.
func RunTaint(cfg TaintCfg) *Taint {
	t := &Taint{cfg: cfg, objs: map[types.Object]bool{}, litRet: map[*ir.Func]bool{}, closures: map[types.Object]*ir.Func{}}
	t.funcs = append([]*ir.Func{cfg.Top}, cfg.Top.Lits...)
	// bind closures
	for _, fn := range t.funcs {
		for _, w := range fn.WritesIn(fn.Body, false) {
			if w.RHS == nil {
				continue
			}
			if lit, ok := ast.Unparen(w.RHS).(*ast.FuncLit); ok {
				if obj := fn.ObjOf(w.LHS); obj != nil {
					t.closures[obj] = fn.P.LitOf(lit)
				}
			}
		}
	}
	if cfg.SourceObj != nil {
		for _, fn := range t.funcs {
			for _, fld := range fn.Type.Params.List {
				for _, nm := range fld.Names {
					if obj := fn.Info().Defs[nm]; obj != nil && cfg.SourceObj(obj) {
						t.objs[obj] = true
					}
				}
			}
		}
	}
	for iter := 0; iter < 50; iter++ {
		t.changed = false
		for _, fn := range t.funcs {
			t.step(fn)
		}
		if !t.changed {
			break
		}
	}
	return t
}

func (t *Taint) mark(obj types.Object) {
	if obj != nil && obj.Name() != "_" && !t.objs[obj] {
		t.objs[obj] = true
		t.changed = true
	}
}

// Obj reports whether a variable is tainted.
func (t *Taint) Obj(obj types.Object) bool { return t.objs[obj] }

func (t *Taint) step(fn *ir.Func) {
	for _, w := range fn.WritesIn(fn.Body, false) {
		switch s := w.Stmt.(type) {
		case *ast.RangeStmt:
			if t.cfg.ElemCarries && ast.Expr(s.Value) == w.LHS && t.Expr(fn, s.X) {
				t.mark(fn.ObjOf(w.LHS))
			}
			continue
		}
		rhs := w.RHS
		if rhs == nil {
			rhs = ir.TupleRHS(w.Stmt)
			if rhs == nil {
				continue
			}
			// tuple assignment from a call: taint every non-error LHS if the call result is tainted
		}
		if w.Tok != token.ASSIGN && w.Tok != token.DEFINE {
			continue
		}
		if t.cfg.SkipWrite != nil && t.cfg.SkipWrite(fn, w) {
			continue
		}
		if t.Expr(fn, rhs) {
			root, path := fn.RootObj(w.LHS)
			if ir.IsErrorType(fn.TypeOf(w.LHS)) {
				continue
			}
			if root != nil && len(path) > 0 {
				// a store through a pointer variable goes to the heap object, not to the variable
				if _, isPtr := root.Type().Underlying().(*types.Pointer); isPtr {
					continue
				}
			}
			t.mark(root)
		}
	}
	// calls: closure argument binding, copy(dst, src), returns of literals
	ir.Walk(fn.Body, false, func(n ast.Node) {
		switch x := n.(type) {
		case *ast.CallExpr:
			var lit *ir.Func
			if l, ok := ast.Unparen(x.Fun).(*ast.FuncLit); ok {
				lit = fn.P.LitOf(l)
			} else if obj := fn.ObjOf(x.Fun); obj != nil {
				lit = t.closures[obj]
			}
			if lit != nil {
				i := 0
				for _, fld := range lit.Type.Params.List {
					for _, nm := range fld.Names {
						if i < len(x.Args) && t.Expr(fn, x.Args[i]) {
							t.mark(lit.Info().Defs[nm])
						}
						i++
					}
				}
			}
			if id, ok := x.Fun.(*ast.Ident); ok {
				if b, ok := fn.Info().Uses[id].(*types.Builtin); ok && b.Name() == "copy" && len(x.Args) == 2 && t.Expr(fn, x.Args[1]) && t.cfg.ElemCarries {
					root, _ := fn.RootObj(x.Args[0])
					t.mark(root)
				}
			}
		case *ast.ReturnStmt:
			if fn.Lit != nil {
				for _, r := range x.Results {
					if t.Expr(fn, r) && !t.litRet[fn] {
						t.litRet[fn] = true
						t.changed = true
					}
				}
			}
		}
	})
}

// Expr reports whether evaluating e can yield a tainted value.
func (t *Taint) Expr(fn *ir.Func, e ast.Expr) bool {
	if e == nil {
		return false
	}
	e = ast.Unparen(e)
	if t.cfg.Source != nil && t.cfg.Source(fn, e) {
		return true
	}
	switch x := e.(type) {
	case *ast.Ident:
		return t.objs[fn.ObjOf(x)]
	case *ast.SelectorExpr:
		if fn.Info().Selections[x] == nil {
			return t.objs[fn.Info().Uses[x.Sel]]
		}
		if fn.Info().Selections[x].Kind() != types.FieldVal {
			return false // method value
		}
		return t.cfg.ElemCarries && t.Expr(fn, x.X) && (t.cfg.ValueTaint || carriesRefs(fn.TypeOf(e)))
	case *ast.IndexExpr:
		return t.cfg.ElemCarries && t.Expr(fn, x.X) && (t.cfg.ValueTaint || carriesRefs(fn.TypeOf(e)))
	case *ast.SliceExpr:
		return t.Expr(fn, x.X)
	case *ast.StarExpr:
		return t.Expr(fn, x.X)
	case *ast.UnaryExpr:
		if x.Op == token.AND || t.cfg.ValueTaint {
			return t.Expr(fn, x.X)
		}
		return false
	case *ast.BinaryExpr:
		return t.cfg.ValueTaint && (t.Expr(fn, x.X) || t.Expr(fn, x.Y))
	case *ast.TypeAssertExpr:
		return t.Expr(fn, x.X)
	case *ast.FuncLit:
		// a closure capturing a tainted variable carries it
		found := false
		ast.Inspect(x.Body, func(n ast.Node) bool {
			if id, ok := n.(*ast.Ident); ok && t.objs[fn.Info().Uses[id]] {
				found = true
			}
			return !found
		})
		return found
	case *ast.CompositeLit:
		for _, el := range x.Elts {
			if kv, ok := el.(*ast.KeyValueExpr); ok {
				el = kv.Value
			}
			if t.Expr(fn, el) {
				return true
			}
		}
		return false
	case *ast.CallExpr:
		if t.cfg.Sanitizer != nil && t.cfg.Sanitizer(fn, x) {
			return false
		}
		if tv, ok := fn.Info().Types[x.Fun]; ok && tv.IsType() && len(x.Args) == 1 {
			return t.Expr(fn, x.Args[0]) // conversion
		}
		if id, ok := x.Fun.(*ast.Ident); ok {
			if b, ok := fn.Info().Uses[id].(*types.Builtin); ok {
				switch b.Name() {
				case "append":
					// the result shares the first operand's backing array; the other
					// operands are copied element-wise (they matter only for deep sharing)
					for i, a := range x.Args {
						if (i == 0 || t.cfg.ElemCarries) && t.Expr(fn, a) {
							return true
						}
					}
				default:
					if t.cfg.ValueTaint {
						for _, a := range x.Args {
							if t.Expr(fn, a) {
								return true
							}
						}
					}
				}
				return false
			}
		}
		// closure call
		var lit *ir.Func
		if l, ok := ast.Unparen(x.Fun).(*ast.FuncLit); ok {
			lit = fn.P.LitOf(l)
		} else if obj := fn.ObjOf(x.Fun); obj != nil {
			lit = t.closures[obj]
		}
		if lit != nil {
			return t.litRet[lit]
		}
		callee := fn.Callee(x)
		if callee != nil && callee.Pkg() != nil && (callee.Pkg().Path() == "slices" || callee.Pkg().Path() == "maps") {
			// standard container helpers: the result holds (copies of) the operands'
			// elements; only a few return a container that shares the first operand's storage
			if t.cfg.ElemCarries {
				for _, a := range x.Args {
					if t.Expr(fn, a) {
						return true
					}
				}
				return false
			}
			switch callee.Name() {
			case "Clone", "Concat", "Collect", "Sorted", "SortedFunc", "SortedStableFunc", "Values", "Keys", "All", "Repeat":
				return false
			}
			return len(x.Args) > 0 && t.Expr(fn, x.Args[0])
		}
		if t.cfg.CallCarries != nil && t.cfg.CallCarries(fn, x) {
			if sel, ok := x.Fun.(*ast.SelectorExpr); ok && fn.Info().Selections[sel] != nil && t.Expr(fn, sel.X) {
				return true
			}
			for _, a := range x.Args {
				if t.Expr(fn, a) {
					return true
				}
			}
		}
		return false
	}
	return false
}

// carriesRefs reports whether a value of type t can share memory with its
// origin (contains slices, maps, pointers, interfaces or funcs).
func carriesRefs(t types.Type) bool {
	return carriesRefsDepth(t, 0)
}

func carriesRefsDepth(t types.Type, d int) bool {
	if t == nil || d > 6 {
		return true
	}
	switch u := t.Underlying().(type) {
	case *types.Basic:
		return false
	case *types.Array:
		return carriesRefsDepth(u.Elem(), d+1)
	case *types.Struct:
		for i := 0; i < u.NumFields(); i++ {
			if carriesRefsDepth(u.Field(i).Type(), d+1) {
				return true
			}
		}
		return false
	}
	return true
}

// ReachingDefs returns the nodes whose whole-variable write of obj can reach
// use without an intervening whole write. A nil element stands for the value
// at function entry (parameter / zero value).
func ReachingDefs(f *ir.Func, obj types.Object, use *cfgx.Node) []*cfgx.Node {
	var out []*cfgx.Node
	seen := map[*cfgx.Node]bool{}
	entrySeen := false
	var walk func(n *cfgx.Node)
	walk = func(n *cfgx.Node) {
		if len(n.Preds) == 0 && !entrySeen {
			entrySeen = true
			out = append(out, nil)
		}
		for _, e := range n.Preds {
			p := e.From
			if seen[p] {
				continue
			}
			seen[p] = true
			wrote := false
			if p.AST != nil {
				for _, w := range f.WritesIn(p.AST, false) {
					if id, ok := ast.Unparen(w.LHS).(*ast.Ident); ok && f.ObjOf(id) == obj {
						wrote = true
					}
				}
			}
			if wrote {
				out = append(out, p)
				continue
			}
			walk(p)
		}
	}
	walk(use)
	return out
}

// isDeepCopier reports whether repository function fn never lets memory of
// its idx-th parameter (a []V2Transaction) reach its results or the heap: the
// parameter is only ranged over (value variable used solely as a method-call
// receiver or as an argument of functions outside the repository), indexed
// for such calls, or measured with len.
func isDeepCopier(fn *ir.Func, idx int) (bool, string) {
	var param types.Object
	i := 0
	for _, fld := range fn.Type.Params.List {
		for _, nm := range fld.Names {
			if i == idx {
				param = fn.Info().Defs[nm]
			}
			i++
		}
	}
	if param == nil {
		return false, "parameter not found"
	}
	why := ""
	ok := true
	elemOK := func(body ast.Node, v types.Object) {
		ast.Inspect(body, func(n ast.Node) bool {
			id, isID := n.(*ast.Ident)
			if !isID || fn.Info().Uses[id] != v {
				return true
			}
			ps := parentChain(fn.Body, id)
			if len(ps) >= 2 {
				if sel, isSel := ps[0].(*ast.SelectorExpr); isSel && sel.X == ast.Expr(id) {
					if call, isCall := ps[1].(*ast.CallExpr); isCall && call.Fun == ast.Expr(sel) {
						return true // v.Method(...)
					}
				}
			}
			if len(ps) >= 1 {
				if call, isCall := ps[0].(*ast.CallExpr); isCall {
					if callee := fn.Callee(call); callee != nil && fn.P.FuncOf(callee) == nil {
						if _, isB := fn.Info().Uses[identOfFun(call)].(*types.Builtin); !isB {
							return true // argument of a dependency function (read-only validators)
						}
					}
				}
			}
			ok, why = false, "element variable "+id.Name+" used at "+fn.P.Pos(id.Pos())+" other than as method receiver"
			return true
		})
	}
	ast.Inspect(fn.Body, func(n ast.Node) bool {
		id, isID := n.(*ast.Ident)
		if !isID || fn.Info().Uses[id] != param {
			return true
		}
		ps := parentChain(fn.Body, id)
		if len(ps) == 0 {
			return true
		}
		switch p := ps[0].(type) {
		case *ast.RangeStmt:
			if p.X == ast.Expr(id) {
				if p.Value != nil {
					if v := fn.ObjOf(p.Value); v != nil {
						elemOK(p.Body, v)
					}
				}
				return true
			}
		case *ast.CallExpr:
			if l := lenOf(fn, p); l != nil {
				return true
			}
		case *ast.IndexExpr:
			if p.X == ast.Expr(id) && len(ps) >= 3 {
				if sel, isSel := ps[1].(*ast.SelectorExpr); isSel {
					if call, isCall := ps[2].(*ast.CallExpr); isCall && call.Fun == ast.Expr(sel) {
						return true
					}
				}
			}
		}
		ok, why = false, "parameter "+id.Name+" used at "+fn.P.Pos(id.Pos())+" in a way that may alias it into the result"
		return true
	})
	return ok, why
}

func identOfFun(call *ast.CallExpr) *ast.Ident {
	id, _ := ast.Unparen(call.Fun).(*ast.Ident)
	return id
}
