package rules

import (
	"go/ast"
	"go/types"
	"strings"

	"sialint/internal/cfgx"
	"sialint/internal/ir"
)

func init() {
	Explanations["C09"] = "Decides structural necessary conditions of 'the host's sector roots always match the committed contract, even on aborts' in the rhp.Server handlers: (R1) no element store, copy or in-place reordering ever reaches the slice handed out by the contract lock (RevisionState.Roots) or an alias of it — only a clone may be edited — so an aborted RPC cannot have changed the contractor's roots; (R2) the Merkle root committed into the revision and the roots persisted with it derive from the same slice variable (MetaRoot(X)/BuildAppendProof(old, X[len(old):]) for the X handed to ReviseV2Contract; the unchanged locked roots for the roots-listing RPC); (R3) request-derived indices and ranges subscript the roots only after the request was validated against the locked revision or bounds-checked against len(roots); (R4) the renter-side free call sends Compact(SortFunc(Clone(indices), descending)) and never writes the caller's slice. That nothing is persisted before the renter's signature verifies is decided by C08.R4. (R5) every repository implementation of Contractor.RenewV2Contract (the reference contractor) stores, under the renewed contract's id, roots read from its roots table under a different id (the contract being renewed): the renewed contract, which commits to the old file size and Merkle root, keeps its sectors. (R6) no call that takes the handler's stream (other than writes) is reachable from the success edge of DebitAccount. NOT decided: equality with the swap-remove list model for arbitrary index lists, readability of listed sectors, balances."

	register(&Rule{ID: "C09.R1", Prop: "C09", Floor: 3, Doc: "the roots handed out by the contract lock are never written in place", Run: c09r1})
	register(&Rule{ID: "C09.R2", Prop: "C09", Floor: 3, Doc: "committed Merkle root and persisted roots derive from the same slice", Run: c09r2})
	register(&Rule{ID: "C09.R3", Prop: "C09", Floor: 2, Doc: "request-derived indices subscript the roots only after validation / bounds check", Run: c09r3})
	register(&Rule{ID: "C09.R5", Prop: "C09", Floor: 1, Doc: "a contractor's renewal carries the sector roots over from the contract being renewed", Run: c09r5})
	register(&Rule{ID: "C09.R6", Prop: "C09", Floor: 2, Doc: "nothing is read from the renter's stream after the account was debited (an abandoned upload leaves balances untouched)", Run: c09r6})
	register(&Rule{ID: "C09.R4", Prop: "C09", Floor: 1, Doc: "client normalises free indices on a private copy (clone, sort descending, compact)", Run: c09r4})
}

// lockedRootsTaint marks slices sharing the backing array of <lock state>.Roots.
func lockedRootsTaint(h *hostAPI, f *ir.Func) *Taint {
	states := map[types.Object]bool{}
	for _, s := range h.lockSites(f) {
		states[s.state] = true
	}
	return RunTaint(TaintCfg{
		Top:         f,
		ElemCarries: false,
		Source: func(fn *ir.Func, e ast.Expr) bool {
			sel, ok := e.(*ast.SelectorExpr)
			return ok && sel.Sel.Name == "Roots" && states[fn.ObjOf(sel.X)]
		},
	})
}

func c09r1(c *Ctx) {
	h := getHostAPI(c.P)
	for _, f := range h.handlers {
		if len(h.lockSites(f)) == 0 {
			continue
		}
		mentions := false
		ir.Walk(f.Body, true, func(x ast.Node) {
			if sel, ok := x.(*ast.SelectorExpr); ok && sel.Sel.Name == "Roots" {
				mentions = true
			}
		})
		if !mentions {
			continue
		}
		c.VisitGraph(f)
		t := lockedRootsTaint(h, f)
		ob := c.Ob(f, "locked-roots-not-written", f.Body.Pos())
		bad := false
		for _, fn := range append([]*ir.Func{f}, f.Lits...) {
			for _, w := range fn.WritesIn(fn.Body, false) {
				switch l := ast.Unparen(w.LHS).(type) {
				case *ast.IndexExpr:
					if t.Expr(fn, l.X) {
						ob.Pos = c.P.Pos(l.Pos())
						ob.Bad(nil, "element store at %s into a slice that shares memory with the roots returned by the contract lock: if the RPC is aborted before the revision is committed the contractor's roots stay modified", c.P.Pos(l.Pos()))
						bad = true
					}
				}
			}
			for _, call := range fn.Calls(false) {
				name := ""
				if id, ok := call.Expr.Fun.(*ast.Ident); ok {
					if b, ok := fn.Info().Uses[id].(*types.Builtin); ok {
						name = b.Name()
					}
				}
				inPlace := name == "copy" || name == "clear"
				if call.Fn != nil && call.Fn.Pkg() != nil {
					switch call.Fn.Pkg().Path() + "." + call.Fn.Name() {
					case "slices.Sort", "slices.SortFunc", "slices.SortStableFunc", "slices.Reverse", "slices.Delete", "slices.DeleteFunc", "slices.Insert", "slices.Compact", "slices.CompactFunc", "slices.Replace", "sort.Slice", "sort.SliceStable":
						inPlace = true
					}
				}
				if inPlace && len(call.Expr.Args) > 0 && t.Expr(fn, call.Expr.Args[0]) {
					ob.Pos = c.P.Pos(call.Pos())
					ob.Bad(nil, "in-place operation at %s on a slice that shares memory with the roots returned by the contract lock", c.P.Pos(call.Pos()))
					bad = true
				}
			}
		}
		if !bad {
			ob.OK("no write reaches the locked roots or an alias")
		}
	}
}

func c09r2(c *Ctx) {
	h := getHostAPI(c.P)
	metaRoot := c.P.FuncObj("rhp4", "MetaRoot")
	buildAppend := c.P.FuncObj("rhp4", "BuildAppendProof")
	for _, f := range h.handlers {
		sites := h.lockSites(f)
		isLockedRoots := func(e ast.Expr) bool {
			o := origin(f, e)
			for _, s := range sites {
				if isFieldOfObj(f, o, s.state, "Roots") {
					return true
				}
			}
			return false
		}
		for _, sink := range f.CallsTo(false, h.revise) {
			c.VisitGraph(f)
			ob := c.Ob(f, "root-and-roots-agree", sink.Pos())
			rev := f.ObjOf(sink.Expr.Args[1])
			rootsArg := sink.Expr.Args[2]
			if rev == nil {
				ob.Unknown("revision argument is not a variable")
				continue
			}
			k, _ := tupleDef(f, rev)
			if k == nil || !isCoreConstructor(f.Callee(k)) {
				ob.Unknown("revision is not the result of a core constructor (see C08.R3)")
				continue
			}
			switch f.Callee(k).Name() {
			case "ReviseForSectorRoots":
				ob.Check(isLockedRoots(rootsArg), nil, "the roots-listing RPC does not change the Merkle root, yet it persists %s instead of the unchanged roots obtained from the contract lock: the stored roots no longer hash to the committed root", ir.ExprString(rootsArg))
			case "ReviseForFreeSectors":
				o := origin(f, k.Args[2])
				call, ok := o.(*ast.CallExpr)
				if !ok || f.Callee(call) != metaRoot.Origin() || len(call.Args) != 1 {
					ob.Bad(nil, "the new Merkle root passed to ReviseForFreeSectors is not MetaRoot(<roots>)")
					continue
				}
				same := sameLvalue(f, call.Args[0], rootsArg)
				ob.Check(same, nil, "the committed Merkle root is MetaRoot(%s) but the roots persisted are %s", ir.ExprString(call.Args[0]), ir.ExprString(rootsArg))
			case "ReviseForAppendSectors":
				rootVar := f.ObjOf(k.Args[2])
				var call *ast.CallExpr
				idx := -1
				if rootVar != nil {
					call, idx = tupleDef(f, rootVar)
				}
				if call == nil || f.Callee(call) != buildAppend.Origin() || idx != 1 || len(call.Args) != 2 {
					ob.Bad(nil, "the new Merkle root passed to ReviseForAppendSectors is not the root returned by BuildAppendProof")
					continue
				}
				okOld := isLockedRoots(call.Args[0])
				okNew := false
				// (a tail slice named before the call is looked through, provided the sliced list is not written in between)
				at := f.Graph().NodeContaining(call.Pos())
				tail := ast.Unparen(originUnwritten(f, call.Args[1], at))
				if _, isSlice := tail.(*ast.SliceExpr); !isSlice {
					tail = ast.Unparen(originAt(f, call.Args[1], at))
				}
				if se, ok := tail.(*ast.SliceExpr); ok && se.High == nil && se.Low != nil {
					if f.ObjOf(se.X) != nil && f.ObjOf(se.X) == f.ObjOf(rootsArg) {
						l := lenOf(f, se.Low)
						if l == nil {
							// the old length kept in a local (`existing := len(locked roots)`)
							l = lenOf(f, originAt(f, se.Low, f.Graph().NodeContaining(se.Pos())))
						}
						if l != nil && isLockedRoots(l) {
							okNew = true
						}
					}
				}
				ob.Check(okOld && okNew, nil, "BuildAppendProof must be given (locked roots, X[len(locked roots):]) for the same X that is persisted; got (%s, %s) with %s persisted", ir.ExprString(call.Args[0]), ir.ExprString(call.Args[1]), ir.ExprString(rootsArg))
			default:
				ob.Unknown("unexpected constructor %s for a roots-persisting sink", f.Callee(k).Name())
			}
		}
	}
}

func c09r3(c *Ctx) {
	h := getHostAPI(c.P)
	for _, f := range h.handlers {
		sites := h.lockSites(f)
		if len(sites) == 0 {
			continue
		}
		req, _ := reqVar(f, h.readRequest)
		if req == nil {
			continue
		}
		g := f.Graph()
		// roots-derived slices (locked roots, aliases and clones)
		t := RunTaint(TaintCfg{Top: f, ElemCarries: true, // clones stay "roots-shaped"
			Source: func(fn *ir.Func, e ast.Expr) bool {
				sel, ok := e.(*ast.SelectorExpr)
				if !ok || sel.Sel.Name != "Roots" {
					return false
				}
				for _, s := range sites {
					if denotes(fn, fn.ObjOf(sel.X), s.state) {
						return true
					}
				}
				return false
			}})
		// request-derived index variables: range values over req.<field>, or req.<field> itself
		reqDerived := func(e ast.Expr) bool {
			found := false
			ir.Walk(e, false, func(x ast.Node) {
				if id, ok := x.(*ast.Ident); ok {
					o := f.ObjOf(id)
					if o == req {
						found = true
					}
					// range value over req.X
					for _, w := range f.WritesIn(f.Body, false) {
						if rs, ok := w.Stmt.(*ast.RangeStmt); ok && f.ObjOf(w.LHS) == o && o != nil && ast.Expr(rs.Value) == w.LHS && f.MentionsObj(rs.X, false, req) {
							found = true
						}
					}
				}
			})
			return found
		}
		// validation edges: req.Validate(..., <locked revision>) success
		var okEdges []*cfgx.Edge
		for _, call := range f.Calls(false) {
			if call.Fn == nil || call.Fn.Name() != "Validate" || call.Recv() == nil || f.ObjOf(call.Recv()) != req {
				continue
			}
			usesLocked := false
			for _, a := range call.Expr.Args {
				o := origin(f, a)
				for _, s := range sites {
					if isFieldOfObj(f, o, s.state, "Revision") {
						usesLocked = true
					}
				}
			}
			if usesLocked {
				okEdges = append(okEdges, f.CheckOf(call.Expr).Succ...)
			}
		}
		// bounds loops: for _, i := range req.X { if i >= uint64(len(roots)) { return err } } → natural exit edge
		for _, n := range g.Nodes {
			rs, ok := n.AST.(*ast.RangeStmt)
			if !ok || rs.Value == nil || !f.MentionsObj(rs.X, false, req) {
				continue
			}
			v := f.ObjOf(rs.Value)
			isBounds := false
			for _, m := range g.Nodes {
				if m.AST == nil || !containsNode(rs.Body, m.AST) || m.Block == nil || m.Block.Cond != m.AST || len(m.Succs) != 2 {
					continue
				}
				isV := sameObjExpr(f, v)
				isLenRoots := func(e ast.Expr) bool {
					e = ast.Unparen(e)
					if call, ok := e.(*ast.CallExpr); ok && len(call.Args) == 1 {
						if tv, ok := f.Info().Types[call.Fun]; ok && tv.IsType() {
							e = call.Args[0]
						}
					}
					x := lenOf(f, e)
					return x != nil && t.Expr(f, x)
				}
				// v >= len(roots) on the true edge must lead only to error returns
				for _, e := range m.Succs {
					if edgeEstablishesLess(e, isV, isLenRoots) {
						isBounds = true
					}
				}
			}
			if isBounds {
				for _, e := range n.Succs {
					if e.Kind == cfgx.Br1 {
						okEdges = append(okEdges, e)
					}
				}
			}
		}
		for _, n := range g.Nodes {
			if n.AST == nil {
				continue
			}
			ir.Walk(n.AST, false, func(x ast.Node) {
				var base ast.Expr
				var idx []ast.Expr
				switch e := x.(type) {
				case *ast.IndexExpr:
					base, idx = e.X, []ast.Expr{e.Index}
				case *ast.SliceExpr:
					base = e.X
					for _, b := range []ast.Expr{e.Low, e.High} {
						if b != nil {
							idx = append(idx, b)
						}
					}
				default:
					return
				}
				if !t.Expr(f, base) {
					return
				}
				derived := false
				for _, i := range idx {
					if reqDerived(i) {
						derived = true
					}
				}
				if !derived {
					return
				}
				c.Visit(1)
				ob := c.Ob(f, "request-index-checked", x.Pos())
				ob.Check(f.OnlyVia(n, okEdges), nil, "request-derived index/range subscripts the sector roots at %s on a path that neither validated the request against the locked revision nor bounds-checked it against len(roots): a malformed request panics the handler or frees the wrong sector", c.P.Pos(x.Pos()))
			})
		}
	}
}

func c09r4(c *Ctx) {
	// the renter-side function that builds an RPCFreeSectorsRequest
	reqT := c.P.Named("rhp4", "RPCFreeSectorsRequest")
	for _, f := range c.P.Views("rhp", ir.ExpandOpt{Key: "all"}).Roots {
		var lit *ast.CompositeLit
		ir.Walk(f.Body, false, func(x ast.Node) {
			if cl, ok := x.(*ast.CompositeLit); ok && types.Identical(f.TypeOf(cl), reqT) {
				lit = cl
			}
		})
		if lit == nil {
			continue
		}
		c.VisitGraph(f)
		ob := c.Ob(f, "indices-normalised-on-copy", lit.Pos())
		var sent ast.Expr
		for _, el := range lit.Elts {
			if kv, ok := el.(*ast.KeyValueExpr); ok {
				if k, ok := kv.Key.(*ast.Ident); ok && k.Name == "Indices" {
					sent = kv.Value
				}
			}
		}
		obj := f.ObjOf(sent)
		if obj == nil {
			ob.Bad(nil, "the Indices sent are not a local variable holding the normalised copy")
			continue
		}
		g := f.Graph()
		ln := g.NodeContaining(lit.Pos())
		// walk the definitions reaching the literal: expect Compact ← (SortFunc in place) ← Clone(param)
		var cloneN, sortN, compactN, reverseN *cfgx.Node
		// the list may be normalised under another name and handed back (a helper's variable): the variable sent
		// and the variables it is a compacted / plain copy of
		objs := map[types.Object]bool{obj: true}
		for round := 0; round < 3; round++ {
			for _, w := range f.WritesIn(f.Body, false) {
				if w.RHS == nil || !objs[f.ObjOf(w.LHS)] {
					continue
				}
				rhs := ast.Unparen(w.RHS)
				if call, ok := rhs.(*ast.CallExpr); ok && len(call.Args) == 1 {
					if fn := f.Callee(call); fn != nil && fn.Pkg() != nil && fn.Pkg().Path() == "slices" && fn.Name() == "Compact" {
						rhs = ast.Unparen(call.Args[0])
					}
				}
				if o := f.ObjOf(rhs); o != nil {
					if v, ok := o.(*types.Var); ok && !v.IsField() && !isParamOf(f, v) {
						objs[o] = true
					}
				}
			}
		}
		plainSort := false
		for _, n := range g.Nodes {
			if n.AST == nil {
				continue
			}
			for _, call := range f.NodeCalls(n) {
				if call.Fn == nil || call.Fn.Pkg() == nil || call.Fn.Pkg().Path() != "slices" || len(call.Expr.Args) == 0 {
					continue
				}
				if call.Fn.Name() == "Clone" {
					// the clone is what one of the names is defined as
					for _, w := range f.WritesIn(n.AST, false) {
						if w.RHS != nil && ast.Unparen(w.RHS) == ast.Expr(call.Expr) && objs[f.ObjOf(w.LHS)] {
							cloneN = n
						}
					}
					continue
				}
				if !objs[f.ObjOf(call.Expr.Args[0])] {
					continue
				}
				switch call.Fn.Name() {
				case "SortFunc", "Sort":
					sortN = n
					plainSort = call.Fn.Name() == "Sort"
					if call.Fn.Name() == "SortFunc" && !descendingCmp(f, call.Expr) {
						sortN = nil
					}
				case "Reverse":
					reverseN = n
				case "Compact":
					compactN = n
				}
			}
		}
		if sortN != nil && plainSort {
			// ascending sort: only together with a reversal between it and the de-duplication
			if reverseN == nil || compactN == nil || !g.DominatedByNode(reverseN, sortN) || !g.DominatedByNode(compactN, reverseN) {
				sortN = nil
			}
		}
		switch {
		case cloneN == nil:
			ob.Bad(nil, "the caller's index slice is not cloned before it is sorted: RPCFreeSectors mutates its argument")
		case sortN == nil:
			ob.Bad(nil, "indices are not sorted in descending order before they are sent: the host's swap-with-tail can move a root that is itself pending deletion")
		case compactN == nil:
			ob.Bad(nil, "duplicate indices are not removed before they are sent")
		case !(g.DominatedByNode(sortN, cloneN) && g.DominatedByNode(compactN, sortN) && g.DominatedByNode(ln, compactN)):
			ob.Bad(nil, "clone, sort and compact do not dominate each other and the request in that order")
		default:
			// the clone must be the first thing that happens to the parameter
			ob.OK("Clone at %s → SortFunc(desc) at %s → Compact at %s → request", c.P.Pos(cloneN.Pos()), c.P.Pos(sortN.Pos()), c.P.Pos(compactN.Pos()))
		}
	}
}

// descendingCmp recognises slices.SortFunc(x, func(a, b T) int { return cmp.Compare(b, a) }).
func descendingCmp(f *ir.Func, call *ast.CallExpr) bool {
	if len(call.Args) != 2 {
		return false
	}
	lit, ok := ast.Unparen(call.Args[1]).(*ast.FuncLit)
	if !ok || len(lit.Type.Params.List) == 0 {
		return false
	}
	var names []*ast.Ident
	for _, fld := range lit.Type.Params.List {
		names = append(names, fld.Names...)
	}
	if len(names) != 2 || len(lit.Body.List) != 1 {
		return false
	}
	ret, ok := lit.Body.List[0].(*ast.ReturnStmt)
	if !ok || len(ret.Results) != 1 {
		return false
	}
	cc, ok := ast.Unparen(ret.Results[0]).(*ast.CallExpr)
	if !ok || len(cc.Args) != 2 {
		return false
	}
	fn := f.Callee(cc)
	if fn == nil || fn.Pkg() == nil || fn.Pkg().Path() != "cmp" || fn.Name() != "Compare" {
		return false
	}
	a0, _ := ast.Unparen(cc.Args[0]).(*ast.Ident)
	a1, _ := ast.Unparen(cc.Args[1]).(*ast.Ident)
	return a0 != nil && a1 != nil && a0.Name == names[1].Name && a1.Name == names[0].Name
}

// c09r5: renewals carry the roots over.
func c09r5(c *Ctx) {
	renew := c.P.Method("rhp", "Contractor", "RenewV2Contract")
	n := 0
	for _, f := range c.P.Funcs {
		if f.Obj == nil || f.Obj.Name() != renew.Name() || f.Lit != nil {
			continue
		}
		sig := f.Obj.Type().(*types.Signature)
		if sig.Recv() == nil || !types.Identical(types.NewSignatureType(nil, nil, nil, sig.Params(), sig.Results(), false), types.NewSignatureType(nil, nil, nil, renew.Type().(*types.Signature).Params(), renew.Type().(*types.Signature).Results(), false)) {
			continue
		}
		n++
		// with its helpers and bracket closures expanded (the body may sit behind a lock wrapper)
		f = c.P.Expand(f, ir.ExpandOpt{Key: "all"})
		c.VisitGraph(f)
		ob := c.Ob(f, "roots-carried-over", f.Body.Pos())
		carried, self := false, ""
		// a table of roots per contract, or a table of records that hold the roots next to the revision
		holdsRoots := func(t types.Type) bool {
			if sl, ok := t.Underlying().(*types.Slice); ok && ir.IsNamed(sl.Elem(), ir.PkgPath("types"), "Hash256") {
				return true
			}
			if st, ok := t.Underlying().(*types.Struct); ok {
				for i := 0; i < st.NumFields(); i++ {
					if sl, ok := st.Field(i).Type().Underlying().(*types.Slice); ok && ir.IsNamed(sl.Elem(), ir.PkgPath("types"), "Hash256") {
						return true
					}
				}
			}
			return false
		}
		isTable := func(t types.Type) bool {
			mt, ok := t.Underlying().(*types.Map)
			return ok && ir.IsNamed(mt.Key(), ir.PkgPath("types"), "FileContractID") && holdsRoots(mt.Elem())
		}
		keyObj := func(e ast.Expr) types.Object {
			o := f.ObjOf(e)
			if o == nil {
				return nil
			}
			return copySource(f, o)
		}
		for _, w := range f.WritesIn(f.Body, true) {
			ix, ok := ast.Unparen(w.LHS).(*ast.IndexExpr)
			if !ok || w.RHS == nil {
				continue
			}
			tbl := f.FieldOf(ix.X)
			if tbl == nil || !isTable(tbl.Type()) {
				continue
			}
			k1 := keyObj(ix.Index)
			// the stored value, with the locals it is built from resolved (a copy bound to a helper's parameter, the
			// old entry looked up into a variable first)
			var visit func(e ast.Expr, depth int)
			visit = func(e ast.Expr, depth int) {
				ir.Walk(e, false, func(x ast.Node) {
					switch t := x.(type) {
					case *ast.IndexExpr:
						if rt := f.FieldOf(t.X); rt != nil && isTable(rt.Type()) {
							k2 := keyObj(t.Index)
							switch {
							case k1 != nil && k2 != nil && k1 != k2:
								carried = true
							case k1 != nil && k1 == k2:
								self = c.P.Pos(w.LHS.Pos())
							}
						}
					case *ast.Ident:
						if depth < 3 {
							if o := origin(f, t); o != ast.Expr(t) {
								visit(o, depth+1)
							} else if v, isVar := f.ObjOf(t).(*types.Var); isVar && !v.IsField() && holdsRoots(v.Type()) {
								// a record read by a comma-ok lookup or a helper: its tuple definition
								if call, _ := tupleDef(f, v); call != nil {
									for _, a := range call.Args {
										visit(a, depth+1)
									}
								}
								for _, d := range wholeDefs(f, v) {
									if d.RHS == nil {
										if rhs := ir.TupleRHS(d.Stmt); rhs != nil {
											visit(rhs, depth+1)
										}
									}
								}
							}
						}
					}
				})
			}
			visit(w.RHS, 0)
		}
		switch {
		case carried:
			ob.OK("the renewed contract's roots are read from another contract's entry")
		case self != "":
			ob.Bad(nil, "%s copies the roots entry of the renewed contract's id onto itself at %s: the new contract, which commits to the old file size and Merkle root, starts with no sector roots", f.Name(), self)
		default:
			ob.Bad(nil, "%s does not store roots for the renewed contract taken from the contract being renewed", f.Name())
		}
	}
	if n == 0 {
		ir.Fail("no repository implementation of Contractor.RenewV2Contract found")
	}
}

// isParamOf reports whether v is a parameter of the (root) function f.
func isParamOf(f *ir.Func, v *types.Var) bool {
	if f.Type == nil || f.Type.Params == nil {
		return false
	}
	for _, fld := range f.Type.Params.List {
		for _, nm := range fld.Names {
			if f.Info().Defs[nm] == types.Object(v) {
				return true
			}
		}
	}
	return false
}

// c09r6: an upload that is abandoned half-way costs nothing. Once an account was debited for an RPC nothing more is
// read from the renter's stream in that handler: everything the renter has to supply (the request, the sector
// data) is received before the debit, so a renter that stops sending makes the handler fail while balances are still
// untouched.
func c09r6(c *Ctx) {
	h := getHostAPI(c.P)
	n := 0
	for _, f := range h.handlers {
		debits := f.CallsTo(false, h.debit)
		if len(debits) == 0 {
			continue
		}
		// the handler's stream: its net.Conn parameter
		var stream types.Object
		if f.Type.Params != nil {
			for _, fld := range f.Type.Params.List {
				for _, nm := range fld.Names {
					if o := f.Info().Defs[nm]; o != nil && ir.IsNamed(o.Type(), "net", "Conn") {
						stream = o
					}
				}
			}
		}
		if stream == nil {
			continue
		}
		g := f.Graph()
		c.VisitGraph(f)
		for _, d := range debits {
			n++
			ob := c.Ob(f, "nothing-read-after-debit", d.Pos())
			chk := f.CheckOf(d.Expr)
			reach := f.ReachableFromEdges(chk.Succ, nil)
			bad := false
			for m := range reach {
				if m.AST == nil || bad {
					continue
				}
				for _, call := range f.NodeCalls(m) {
					reads := false
					for _, a := range call.Expr.Args {
						if f.ObjOf(a) == stream {
							reads = true
						}
					}
					if rcv := call.Recv(); rcv != nil && f.ObjOf(rcv) == stream {
						reads = true
					}
					name := ""
					if call.Fn != nil {
						name = call.Fn.Name()
					}
					if !reads || strings.HasPrefix(name, "Write") || name == "Close" || strings.HasPrefix(name, "Set") {
						continue
					}
					ob.Bad(nil, "after the account was debited at %s the handler still reads from the renter's stream (%s at %s): a renter that stops sending there has paid for an RPC that fails, and nothing refunds it", c.P.Pos(d.Pos()), name, c.P.Pos(call.Pos()))
					bad = true
					break
				}
			}
			_ = g
			if !bad {
				ob.OK("no read from the stream is reachable after the debit succeeded")
			}
		}
	}
	if n == 0 {
		ir.Fail("no handler debits an account")
	}
}
