package repro

import (
	"bytes"
	"context"
	"net"
	"testing"
	"time"

	proto4 "go.sia.tech/core/rhp/v4"
	"go.sia.tech/core/types"
	"go.sia.tech/coreutils/chain"
	rhp4 "go.sia.tech/coreutils/rhp/v4"
	"go.sia.tech/coreutils/rhp/v4/siamux"
	"go.sia.tech/coreutils/testutil"
	"go.sia.tech/coreutils/wallet"
	"go.uber.org/zap"
	"lukechampine.com/frand"
)

type fundAndSign struct {
	w  *wallet.SingleAddressWallet
	pk types.PrivateKey
}

func (fs *fundAndSign) FundV2Transaction(txn *types.V2Transaction, amount types.Currency) (types.ChainIndex, []int, error) {
	return fs.w.FundV2Transaction(txn, amount, true)
}
func (fs *fundAndSign) RecommendedFee() types.Currency                         { return fs.w.RecommendedFee() }
func (fs *fundAndSign) ReleaseInputs(txns []types.V2Transaction)               { fs.w.ReleaseInputs(nil, txns) }
func (fs *fundAndSign) SignV2Inputs(txn *types.V2Transaction, toSign []int)    { fs.w.SignV2Inputs(txn, toSign) }
func (fs *fundAndSign) SignHash(h types.Hash256) types.Signature               { return fs.pk.SignHash(h) }

type env struct {
	cm        *chain.Manager
	w         *wallet.SingleAddressWallet
	ws        *testutil.EphemeralWalletStore
	c         *testutil.EphemeralContractor
	transport rhp4.TransportClient
	hostKey   types.PrivateKey
	renterKey types.PrivateKey
	settings  proto4.HostSettings
	hostAddr  string
}

func (e *env) sync(t *testing.T) {
	syncDB(t, e.cm, e.ws, e.w)
	for {
		tip, _ := e.c.Tip()
		if tip == e.cm.Tip() {
			return
		}
		time.Sleep(time.Millisecond)
	}
}

func newEnv(t *testing.T) *env {
	n, genesis := testutil.V2Network()
	store, tipState, err := chain.NewDBStore(chain.NewMemDB(), n, genesis, nil)
	if err != nil {
		t.Fatal(err)
	}
	cm := chain.NewManager(store, tipState)
	ws := testutil.NewEphemeralWalletStore()
	w, err := wallet.NewSingleAddressWallet(types.GeneratePrivateKey(), cm, ws, &testutil.MockSyncer{})
	if err != nil {
		t.Fatal(err)
	}
	t.Cleanup(func() { w.Close() })
	e := &env{cm: cm, w: w, ws: ws, hostKey: types.GeneratePrivateKey(), renterKey: types.GeneratePrivateKey()}
	e.c = testutil.NewEphemeralContractor(cm)
	mine(t, cm, w.Address(), int(n.MaturityDelay)+20)
	e.sync(t)
	sr := testutil.NewEphemeralSettingsReporter()
	sr.Update(proto4.HostSettings{
		Release: "test", AcceptingContracts: true, WalletAddress: w.Address(),
		MaxCollateral: types.Siacoins(10000), MaxContractDuration: 1000,
		RemainingStorage: 100 * proto4.SectorSize, TotalStorage: 100 * proto4.SectorSize,
		Prices: proto4.HostPrices{ContractPrice: types.Siacoins(1).Div64(5), StoragePrice: types.NewCurrency64(100), IngressPrice: types.NewCurrency64(100), EgressPrice: types.NewCurrency64(100), Collateral: types.NewCurrency64(200)},
	})
	ss := testutil.NewEphemeralSectorStore()
	rs := rhp4.NewServer(e.hostKey, cm, e.c, w, sr, ss, rhp4.WithPriceTableValidity(2*time.Minute))
	e.hostAddr = testutil.ServeSiaMux(t, rs, zap.NewNop())
	e.transport, err = siamux.Dial(context.Background(), e.hostAddr, e.hostKey.PublicKey())
	if err != nil {
		t.Fatal(err)
	}
	t.Cleanup(func() { e.transport.Close() })
	e.settings, err = rhp4.RPCSettings(context.Background(), e.transport)
	if err != nil {
		t.Fatal(err)
	}
	return e
}

func (e *env) form(t *testing.T) rhp4.ContractRevision {
	fs := &fundAndSign{e.w, e.renterKey}
	res, err := rhp4.RPCFormContract(context.Background(), e.transport, e.cm, fs, e.cm.TipState(), e.settings.Prices, e.hostKey.PublicKey(), e.settings.WalletAddress, proto4.RPCFormContractParams{
		RenterPublicKey: e.renterKey.PublicKey(), RenterAddress: e.w.Address(), Allowance: types.Siacoins(100), Collateral: types.Siacoins(200), ProofHeight: e.cm.Tip().Height + 50,
	})
	if err != nil {
		t.Fatal(err)
	}
	mine(t, e.cm, types.VoidAddress, 1)
	e.sync(t)
	return res.Contract
}

func TestFreeSectorsAbort(t *testing.T) {
	e := newEnv(t)
	rev := e.form(t)
	cs := e.cm.TipState()
	account := proto4.Account(e.renterKey.PublicKey())
	fr, err := rhp4.RPCFundAccounts(context.Background(), e.transport, cs, e.renterKey, rev, []proto4.AccountDeposit{{Account: account, Amount: types.Siacoins(25)}})
	if err != nil {
		t.Fatal(err)
	}
	rev.Revision = fr.Revision
	token := proto4.NewAccountToken(e.renterKey, e.hostKey.PublicKey())
	roots := make([]types.Hash256, 6)
	for i := range roots {
		data := frand.Bytes(1024)
		wr, err := rhp4.RPCWriteSector(context.Background(), e.transport, e.settings.Prices, token, bytes.NewReader(data), uint64(len(data)))
		if err != nil {
			t.Fatal(err)
		}
		roots[i] = wr.Root
	}
	ar, err := rhp4.RPCAppendSectors(context.Background(), e.transport, e.renterKey, cs, e.settings.Prices, rev, roots)
	if err != nil {
		t.Fatal(err)
	}
	rev.Revision = ar.Revision

	// start a free-sectors RPC and abandon it after the host's first response
	s, err := e.transport.DialStream(context.Background())
	if err != nil {
		t.Fatal(err)
	}
	req := proto4.RPCFreeSectorsRequest{ContractID: rev.ID, Prices: e.settings.Prices, Indices: []uint64{0, 1}}
	req.ChallengeSignature = e.renterKey.SignHash(req.ChallengeSigHash(rev.Revision.RevisionNumber + 1))
	if err := proto4.WriteRequest(s, proto4.RPCFreeSectorsID, &req); err != nil {
		t.Fatal(err)
	}
	var resp proto4.RPCFreeSectorsResponse
	if err := proto4.ReadResponse(s, &resp); err != nil {
		t.Fatal(err)
	}
	s.Close() // abort: never sign
	time.Sleep(200 * time.Millisecond)

	var state rhp4.RevisionState
	for i := 0; i < 100; i++ {
		st, unlock, err := e.c.LockV2Contract(rev.ID)
		if err != nil {
			time.Sleep(10 * time.Millisecond)
			continue
		}
		state = st
		unlock()
		break
	}
	if state.Revision.RevisionNumber != rev.Revision.RevisionNumber {
		t.Fatalf("revision changed")
	}
	if got := proto4.MetaRoot(state.Roots); got != state.Revision.FileMerkleRoot {
		t.Errorf("DEFECT C09: after aborted free, host roots (%d) hash to %v but committed revision has %v", len(state.Roots), got, state.Revision.FileMerkleRoot)
	}
	for i := range roots {
		if i < len(state.Roots) && state.Roots[i] != roots[i] {
			t.Errorf("DEFECT C09: root %d changed by aborted RPC", i)
		}
	}
}

func TestFormBadBasisLeak(t *testing.T) {
	e := newEnv(t)
	before, _ := e.w.Balance()
	// hand-rolled form request with a basis the host does not know
	fs := &fundAndSign{e.w, e.renterKey}
	_ = fs
	params := proto4.RPCFormContractParams{RenterPublicKey: e.renterKey.PublicKey(), RenterAddress: types.VoidAddress, Allowance: types.Siacoins(100), Collateral: types.Siacoins(200), ProofHeight: e.cm.Tip().Height + 50}
	// renter input: any element (it will fail at basis update before being validated)
	req := proto4.RPCFormContractRequest{
		Prices: e.settings.Prices, Contract: params, MinerFee: types.Siacoins(1),
		Basis:        types.ChainIndex{Height: 3, ID: types.BlockID{1, 2, 3}},
		RenterInputs: []types.SiacoinElement{{ID: types.SiacoinOutputID{9}, StateElement: types.StateElement{LeafIndex: 1}, SiacoinOutput: types.SiacoinOutput{Value: types.Siacoins(1000), Address: types.VoidAddress}}},
	}
	for i := 0; i < 3; i++ {
		s, err := e.transport.DialStream(context.Background())
		if err != nil {
			t.Fatal(err)
		}
		if err := proto4.WriteRequest(s, proto4.RPCFormContractID, &req); err != nil {
			t.Fatal(err)
		}
		var resp proto4.RPCFormContractResponse
		err = proto4.ReadResponse(s, &resp)
		t.Logf("attempt %d: host inputs resp err=%v inputs=%d", i, err, len(resp.HostInputs))
		var second proto4.RPCFormContractSecondResponse
		_ = second
		// host will now fail on UpdateV2TransactionSet; read its error
		var third proto4.RPCFormContractThirdResponse
		err = proto4.ReadResponse(s, &third)
		t.Logf("attempt %d: final err=%v", i, err)
		s.Close()
	}
	time.Sleep(200 * time.Millisecond)
	after, _ := e.w.Balance()
	t.Logf("host spendable before=%v after=%v confirmed=%v", before.Spendable, after.Spendable, after.Confirmed)
	if !after.Spendable.Equals(before.Spendable) {
		t.Errorf("DEFECT C16: failed form attempts left host outputs reserved: spendable %v -> %v", before.Spendable, after.Spendable)
	}
}

func TestReplenishDuplicates(t *testing.T) {
	e := newEnv(t)
	rev := e.form(t)
	cs := e.cm.TipState()
	account := proto4.Account(e.renterKey.PublicKey())
	target := types.Siacoins(5)
	res, err := rhp4.RPCReplenishAccounts(context.Background(), e.transport, rhp4.RPCReplenishAccountsParams{Accounts: []proto4.Account{account, account}, Target: target, Contract: rev}, cs, e.renterKey)
	if err != nil {
		t.Fatal(err)
	}
	_ = res
	bal, err := rhp4.RPCAccountBalance(context.Background(), e.transport, account)
	if err != nil {
		t.Fatal(err)
	}
	t.Logf("target=%v balance=%v", target, bal)
	if bal.Cmp(target) > 0 {
		t.Errorf("DEFECT C15: replenish pushed balance %v beyond target %v", bal, target)
	}
}

var _ net.Conn
