package repro

import (
	"testing"

	"go.sia.tech/core/types"
	"go.sia.tech/coreutils/chain"
	"go.sia.tech/coreutils/testutil"
)

// TestParentLookupAcrossKinds: in the hardfork overlap both v1 and v2
// transactions are pooled. Asking for the unconfirmed parents of a v1
// transaction that spends an output created by a pooled v2 transaction (or the
// v2 set of a transaction spending a pooled v1 output) must not panic or
// return an unrelated transaction. DEFECT C13/C14: the output->position map is
// shared by both pool lists.
func TestParentLookupAcrossKinds(t *testing.T) {
	n, genesisBlock := testutil.Network()
	n.HardforkV2.AllowHeight = 2
	n.HardforkV2.RequireHeight = 1000
	n.HardforkV2.FinalCutHeight = 2000

	sk := types.GeneratePrivateKey()
	sp := types.PolicyPublicKey(sk.PublicKey())
	uc := types.StandardUnlockConditions(sk.PublicKey())
	addr := uc.UnlockHash()
	_ = sp

	store, genesisState, err := chain.NewDBStore(chain.NewMemDB(), n, genesisBlock, nil)
	if err != nil {
		t.Fatal(err)
	}
	cm := chain.NewManager(store, genesisState)
	es := testutil.NewElementStateStore(t, cm)
	testutil.MineBlocks(t, cm, addr, 5+int(n.MaturityDelay))
	es.Wait(t)

	cs := cm.TipState()
	basis, sces := es.SiacoinElements()
	var parent types.SiacoinElement
	for _, sce := range sces {
		if sce.SiacoinOutput.Address == addr && sce.MaturityHeight <= cs.Index.Height {
			parent = sce
			break
		}
	}
	if parent.ID == (types.SiacoinOutputID{}) {
		t.Fatal("no spendable output")
	}
	// a pooled v2 transaction creating an output for addr
	fee := types.Siacoins(1)
	v2 := types.V2Transaction{
		SiacoinInputs:  []types.V2SiacoinInput{{Parent: parent, SatisfiedPolicy: types.SatisfiedPolicy{Policy: types.SpendPolicy{Type: types.PolicyTypeUnlockConditions(uc)}}}},
		MinerFee:       fee,
		SiacoinOutputs: []types.SiacoinOutput{{Address: addr, Value: parent.SiacoinOutput.Value.Sub(fee)}},
	}
	v2.SiacoinInputs[0].SatisfiedPolicy.Signatures = []types.Signature{sk.SignHash(cs.InputSigHash(v2))}
	if _, err := cm.AddV2PoolTransactions(basis, []types.V2Transaction{v2}); err != nil {
		t.Fatal(err)
	}
	// a v1 transaction that spends the v2 transaction's (unconfirmed) output
	v1 := types.Transaction{
		SiacoinInputs: []types.SiacoinInput{{ParentID: v2.SiacoinOutputID(v2.ID(), 0), UnlockConditions: uc}},
		SiacoinOutputs: []types.SiacoinOutput{{Address: types.VoidAddress, Value: v2.SiacoinOutputs[0].Value}},
	}
	defer func() {
		if r := recover(); r != nil {
			t.Fatalf("DEFECT C13: UnconfirmedParents panicked: %v", r)
		}
	}()
	parents := cm.UnconfirmedParents(v1)
	for _, p := range parents {
		creates := false
		for i := range p.SiacoinOutputs {
			if p.SiacoinOutputID(i) == v1.SiacoinInputs[0].ParentID {
				creates = true
			}
		}
		if !creates {
			t.Fatalf("DEFECT C13: UnconfirmedParents returned a transaction that does not create the spent output")
		}
	}
}
