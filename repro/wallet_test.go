package repro

import (
	"testing"
	"time"

	"go.sia.tech/core/types"
	"go.sia.tech/coreutils"
	"go.sia.tech/coreutils/chain"
	"go.sia.tech/coreutils/testutil"
	"go.sia.tech/coreutils/wallet"
)

func syncDB(t *testing.T, cm *chain.Manager, store *testutil.EphemeralWalletStore, w *wallet.SingleAddressWallet) {
	for {
		tip, _ := store.Tip()
		if tip == cm.Tip() {
			return
		}
		reverted, applied, err := cm.UpdatesSince(tip, 1000)
		if err != nil {
			t.Fatal(err)
		}
		if err := store.UpdateChainState(func(tx wallet.UpdateTx) error { return w.UpdateChainState(tx, reverted, applied) }); err != nil {
			t.Fatal(err)
		}
	}
}

func newWallet(t *testing.T, opts ...wallet.Option) (*chain.Manager, *testutil.EphemeralWalletStore, *wallet.SingleAddressWallet) {
	n, genesis := testutil.V2Network()
	store, tipState, err := chain.NewDBStore(chain.NewMemDB(), n, genesis, nil)
	if err != nil {
		t.Fatal(err)
	}
	cm := chain.NewManager(store, tipState)
	ws := testutil.NewEphemeralWalletStore()
	w, err := wallet.NewSingleAddressWallet(types.GeneratePrivateKey(), cm, ws, &testutil.MockSyncer{}, opts...)
	if err != nil {
		t.Fatal(err)
	}
	t.Cleanup(func() { w.Close() })
	return cm, ws, w
}

func mine(t *testing.T, cm *chain.Manager, addr types.Address, n int) {
	for ; n > 0; n-- {
		b, ok := coreutils.MineBlock(cm, addr, 5*time.Second)
		if !ok {
			t.Fatal("mine")
		} else if err := cm.AddBlocks([]types.Block{b}); err != nil {
			t.Fatal(err)
		}
	}
}

func TestSpendableVsBalance(t *testing.T) {
	cm, ws, w := newWallet(t)
	mine(t, cm, w.Address(), 1)
	mine(t, cm, types.VoidAddress, int(cm.TipState().Network.MaturityDelay)+1)
	syncDB(t, cm, ws, w)
	bal, _ := w.Balance()
	so, _ := w.SpendableOutputs()
	t.Logf("before: spendable=%v outputs=%d", bal.Spendable, len(so))

	txn := types.V2Transaction{SiacoinOutputs: []types.SiacoinOutput{{Address: types.VoidAddress, Value: types.Siacoins(1)}}}
	basis, toSign, err := w.FundV2Transaction(&txn, types.Siacoins(1), false)
	if err != nil {
		t.Fatal(err)
	}
	w.SignV2Inputs(&txn, toSign)
	if _, err := cm.AddV2PoolTransactions(basis, []types.V2Transaction{txn}); err != nil {
		t.Fatal(err)
	}
	// reservation gone (e.g. restart): release
	w.ReleaseInputs(nil, []types.V2Transaction{txn})
	bal, _ = w.Balance()
	so, _ = w.SpendableOutputs()
	t.Logf("after pool spend + release: Balance.Spendable=%v SpendableOutputs=%d", bal.Spendable, len(so))
	var sum types.Currency
	for _, o := range so {
		sum = sum.Add(o.SiacoinOutput.Value)
	}
	if !sum.Equals(bal.Spendable) {
		t.Errorf("DEFECT C07: SpendableOutputs sum %v != Balance.Spendable %v", sum, bal.Spendable)
	}
}

func TestDefragDuplicates(t *testing.T) {
	cm, ws, w := newWallet(t, wallet.WithDefragThreshold(1), wallet.WithMaxInputsForDefrag(100), wallet.WithMaxDefragUTXOs(10))
	mine(t, cm, w.Address(), 3)
	mine(t, cm, types.VoidAddress, int(cm.TipState().Network.MaturityDelay)+1)
	syncDB(t, cm, ws, w)
	bal, _ := w.Balance()
	t.Logf("spendable=%v", bal.Spendable)
	txn := types.V2Transaction{}
	// request exactly the balance: all utxos are needed
	_, _, err := w.FundV2Transaction(&txn, bal.Spendable, false)
	if err != nil {
		t.Fatal(err)
	}
	seen := map[types.SiacoinOutputID]bool{}
	for _, in := range txn.SiacoinInputs {
		if seen[in.Parent.ID] {
			t.Errorf("DEFECT C07: input %v selected twice (inputs=%d outputs=%v)", in.Parent.ID, len(txn.SiacoinInputs), txn.SiacoinOutputs)
			break
		}
		seen[in.Parent.ID] = true
	}
}
