package repro

import (
	"testing"

	"go.sia.tech/core/types"
	"go.sia.tech/coreutils/chain"
	"go.sia.tech/coreutils/testutil"
)

func newPruneManager(t *testing.T) *chain.Manager {
	t.Helper()
	n, genesis := testutil.V2Network()
	store, tipState, err := chain.NewDBStore(chain.NewMemDB(), n, genesis, nil)
	if err != nil {
		t.Fatal(err)
	}
	return chain.NewManager(store, tipState)
}

func bestBlocks(t *testing.T, cm *chain.Manager, from, to uint64) (blocks []types.Block) {
	t.Helper()
	for h := from; h <= to; h++ {
		index, ok := cm.BestIndex(h)
		if !ok {
			t.Fatalf("missing best index at height %d", h)
		}
		b, ok := cm.Block(index.ID)
		if !ok {
			t.Fatalf("missing block at height %d", h)
		}
		blocks = append(blocks, b)
	}
	return
}

// TestResubmitPrunedThenReorg: after pruning, re-submitting pruned best-chain
// blocks stores their bodies again without a supplement; a heavier fork whose
// fork point lies in that range must then fail with an error (or succeed), but
// never panic. DEFECT C19: on the pinned tree revertTip dereferences the nil
// supplement.
func TestResubmitPrunedThenReorg(t *testing.T) {
	src := newPruneManager(t)
	testutil.MineBlocks(t, src, types.VoidAddress, 60)
	mainChain := bestBlocks(t, src, 1, 60)

	cm, forker := newPruneManager(t), newPruneManager(t)
	if err := cm.AddBlocks(mainChain); err != nil {
		t.Fatal(err)
	}
	cm.PruneBlocks(50)
	// a peer re-sends old blocks of our own best chain
	if err := cm.AddBlocks(mainChain[39:]); err != nil {
		t.Fatal(err)
	}
	tipBefore := cm.Tip()

	// heavier fork with fork point at height 45
	if err := forker.AddBlocks(mainChain[:45]); err != nil {
		t.Fatal(err)
	}
	testutil.MineBlocks(t, forker, types.Address{1}, 25)
	fork := bestBlocks(t, forker, 46, forker.Tip().Height)

	defer func() {
		if r := recover(); r != nil {
			t.Fatalf("DEFECT C19: AddBlocks panicked instead of returning an error: %v", r)
		}
	}()
	err := cm.AddBlocks(fork)
	if err == nil && cm.Tip() != forker.Tip() {
		t.Fatalf("AddBlocks reported success but the tip is %v, expected %v", cm.Tip(), forker.Tip())
	} else if err != nil && cm.Tip() != tipBefore {
		t.Fatalf("DEFECT C19: failed reorg left the tip at %v, expected %v (err: %v)", cm.Tip(), tipBefore, err)
	}
}
