package repro

import (
	"testing"

	"go.sia.tech/coreutils/chain"
)

func TestMemIterUnflushed(t *testing.T) {
	db := chain.NewMemDB()
	b, err := db.CreateBucket([]byte("b"))
	if err != nil {
		t.Fatal(err)
	}
	b.Put([]byte("k1"), []byte("v1"))
	n := 0
	for range b.Iter() {
		n++
	}
	t.Logf("memdb: Get(k1)=%q, iter count before flush = %d", b.Get([]byte("k1")), n)
	if n != 1 {
		t.Errorf("DEFECT C17: MemDB Iter does not reflect unflushed put")
	}
	db.Flush()
	b.Put([]byte("k2"), []byte("v2"))
	n = 0
	for range b.Iter() {
		n++
	}
	if n != 2 {
		t.Errorf("DEFECT C17: MemDB Iter after flush+put sees %d keys, want 2", n)
	}
}

func TestCacheGetAfterDelete(t *testing.T) {
	under := chain.NewMemDB()
	under.CreateBucket([]byte("b"))
	under.Bucket([]byte("b")).Put([]byte("k"), []byte("v"))
	under.Flush()
	c := chain.NewCacheDB(under)
	b := c.Bucket([]byte("b"))
	if got := b.Get([]byte("k")); string(got) != "v" {
		t.Fatalf("got %q", got)
	}
	b.Delete([]byte("k"))
	if got := b.Get([]byte("k")); got != nil {
		t.Errorf("DEFECT C17: CacheDB Get after unflushed Delete returns %q", got)
	}
	b.Put([]byte("n"), []byte("x"))
	n := 0
	for k := range b.Iter() {
		t.Logf("iter key %q", k)
		n++
	}
	if n != 1 {
		t.Errorf("DEFECT C17: CacheDB Iter sees %d keys, want 1 (n)", n)
	}
}
