package repro

import (
	"testing"

	"go.sia.tech/core/types"
	"go.sia.tech/coreutils/chain"
)

func setup(t *testing.T, nOut int) (*chain.Manager, types.Transaction, types.PrivateKey) {
	n, genesisBlock := chain.TestnetZen()
	n.InitialTarget = types.BlockID{0xFF}
	sk := types.GeneratePrivateKey()
	addr := types.StandardUnlockHash(sk.PublicKey())
	gift := types.Transaction{SiacoinOutputs: make([]types.SiacoinOutput, nOut)}
	for i := range gift.SiacoinOutputs {
		gift.SiacoinOutputs[i] = types.SiacoinOutput{Address: addr, Value: types.Siacoins(100)}
	}
	genesisBlock.Transactions = []types.Transaction{gift}
	store, tipState, err := chain.NewDBStore(chain.NewMemDB(), n, genesisBlock, nil)
	if err != nil {
		t.Fatal(err)
	}
	return chain.NewManager(store, tipState), gift, sk
}

func spend(cm *chain.Manager, gift types.Transaction, sk types.PrivateKey, i int, fee uint32) types.Transaction {
	txn := types.Transaction{
		SiacoinInputs: []types.SiacoinInput{{ParentID: gift.SiacoinOutputID(i), UnlockConditions: types.StandardUnlockConditions(sk.PublicKey())}},
		SiacoinOutputs: []types.SiacoinOutput{{Address: types.VoidAddress, Value: types.Siacoins(100 - fee)}},
		MinerFees:      []types.Currency{types.Siacoins(fee)},
	}
	sig := sk.SignHash(cm.TipState().WholeSigHash(txn, types.Hash256(txn.SiacoinInputs[0].ParentID), 0, 0, nil))
	txn.Signatures = append(txn.Signatures, types.TransactionSignature{ParentID: types.Hash256(txn.SiacoinInputs[0].ParentID), CoveredFields: types.CoveredFields{WholeTransaction: true}, Signature: sig[:]})
	return txn
}

func TestPartialAdd(t *testing.T) {
	cm, gift, sk := setup(t, 4)
	p := spend(cm, gift, sk, 1, 1) // pooled spend of output 1
	if _, err := cm.AddPoolTransactions([]types.Transaction{p}); err != nil {
		t.Fatal(err)
	}
	a := spend(cm, gift, sk, 0, 1) // independent
	b := spend(cm, gift, sk, 1, 2) // conflicts with p (double spend of output 1)
	_, err := cm.AddPoolTransactions([]types.Transaction{a, b})
	t.Logf("AddPoolTransactions([a,b]) err = %v", err)
	if err == nil {
		t.Fatal("expected error")
	}
	if _, ok := cm.PoolTransaction(a.ID()); ok {
		t.Errorf("DEFECT C14: set rejected but its first transaction was added to the pool")
	}
	t.Logf("pool size after rejected set: %d", len(cm.PoolTransactions()))
}

func TestCrossKindLookup(t *testing.T) {
	cm, gift, sk := setup(t, 4)
	p := spend(cm, gift, sk, 1, 1)
	if _, err := cm.AddPoolTransactions([]types.Transaction{p}); err != nil {
		t.Fatal(err)
	}
	func() {
		defer func() {
			if r := recover(); r != nil {
				t.Errorf("DEFECT C14: V2PoolTransaction(v1 id) panicked: %v", r)
			}
		}()
		if _, ok := cm.V2PoolTransaction(p.ID()); ok {
			t.Errorf("DEFECT C14: V2PoolTransaction(v1 id) reported found")
		}
	}()
}
