package repro

import (
	"context"
	"net"
	"sync"
	"testing"
	"time"

	"go.sia.tech/core/gateway"
	"go.sia.tech/coreutils/chain"
	"go.sia.tech/coreutils/syncer"
	"go.sia.tech/coreutils/testutil"
)

func newSyncer(t *testing.T, opts ...syncer.Option) *syncer.Syncer {
	n, genesis := testutil.Network()
	store, ts, err := chain.NewDBStore(chain.NewMemDB(), n, genesis, nil)
	if err != nil {
		t.Fatal(err)
	}
	cm := chain.NewManager(store, ts)
	l, err := net.Listen("tcp", "127.0.0.1:0")
	if err != nil {
		t.Fatal(err)
	}
	t.Cleanup(func() { l.Close() })
	s := syncer.New(l, cm, testutil.NewEphemeralPeerStore(), gateway.Header{GenesisID: genesis.ID(), UniqueID: gateway.GenerateUniqueID(), NetAddress: l.Addr().String()}, opts...)
	go s.Run()
	t.Cleanup(func() { s.Close() })
	return s
}

func TestInboundCapRace(t *testing.T) {
	victim := newSyncer(t, syncer.WithMaxInboundPeers(1), syncer.WithPeerDiscoveryInterval(time.Hour))
	const N = 8
	var wg sync.WaitGroup
	for i := 0; i < N; i++ {
		c := newSyncer(t, syncer.WithPeerDiscoveryInterval(time.Hour))
		wg.Add(1)
		go func() {
			defer wg.Done()
			ctx, cancel := context.WithTimeout(context.Background(), 5*time.Second)
			defer cancel()
			c.Connect(ctx, victim.Addr())
		}()
	}
	wg.Wait()
	time.Sleep(300 * time.Millisecond)
	in := 0
	for _, p := range victim.Peers() {
		if p.Inbound {
			in++
		}
	}
	t.Logf("inbound peers = %d (cap 1)", in)
	if in > 1 {
		t.Errorf("DEFECT C18: inbound cap 1 exceeded: %d", in)
	}
}
