package repro

import (
	"context"
	"net"
	"testing"
	"time"

	"go.sia.tech/core/consensus"
	proto4 "go.sia.tech/core/rhp/v4"
	"go.sia.tech/core/types"
	rhp4 "go.sia.tech/coreutils/rhp/v4"
	"go.sia.tech/coreutils/testutil"
	"lukechampine.com/frand"
)

type fakeHostTransport struct {
	hostKey types.PublicKey
	handler func(net.Conn)
}

func (t *fakeHostTransport) DialStream(context.Context) (net.Conn, error) {
	c, s := net.Pipe()
	go func() {
		defer s.Close()
		t.handler(s)
	}()
	return c, nil
}
func (t *fakeHostTransport) FrameSize() int           { return 1440 }
func (t *fakeHostTransport) PeerKey() types.PublicKey { return t.hostKey }
func (t *fakeHostTransport) Close() error             { return nil }

// TestSectorRootsWrongCount: a host that answers RPCSectorRoots with a number
// of roots different from the requested length must make the renter call
// return an error. DEFECT C10: on the pinned tree the host-supplied roots are
// handed to VerifySectorRootsProof, which panics when the count differs.
func TestSectorRootsWrongCount(t *testing.T) {
	n, _ := testutil.V2Network()
	cs := consensus.State{Network: n}
	hostKey := types.GeneratePrivateKey()
	renterKey := types.GeneratePrivateKey()
	roots := make([]types.Hash256, 4)
	for i := range roots {
		roots[i] = frand.Entropy256()
	}
	contract := rhp4.ContractRevision{
		ID: frand.Entropy256(),
		Revision: types.V2FileContract{
			RevisionNumber:   1,
			Filesize:         4 * proto4.SectorSize,
			Capacity:         4 * proto4.SectorSize,
			FileMerkleRoot:   proto4.MetaRoot(roots),
			ProofHeight:      100,
			ExpirationHeight: 200,
			RenterOutput:     types.SiacoinOutput{Value: types.Siacoins(100)},
			HostOutput:       types.SiacoinOutput{Value: types.Siacoins(10)},
			MissedHostValue:  types.Siacoins(10),
			TotalCollateral:  types.Siacoins(10),
			RenterPublicKey:  renterKey.PublicKey(),
			HostPublicKey:    hostKey.PublicKey(),
		},
	}
	prices := proto4.HostPrices{ValidUntil: time.Now().Add(time.Hour)}
	prices.Signature = hostKey.SignHash(prices.SigHash())

	transport := &fakeHostTransport{hostKey: hostKey.PublicKey(), handler: func(s net.Conn) {
		if id, err := proto4.ReadID(s); err != nil || id != proto4.RPCSectorRootsID {
			return
		}
		var req proto4.RPCSectorRootsRequest
		if err := proto4.ReadRequest(s, &req); err != nil {
			return
		}
		// answer with one root too few
		proto4.WriteResponse(s, &proto4.RPCSectorRootsResponse{
			Proof: proto4.BuildSectorRootsProof(roots, 0, 2),
			Roots: roots[:1],
		})
	}}
	defer func() {
		if r := recover(); r != nil {
			t.Fatalf("DEFECT C10: RPCSectorRoots panicked on a malformed host response instead of returning an error: %v", r)
		}
	}()
	ctx, cancel := context.WithTimeout(context.Background(), 10*time.Second)
	defer cancel()
	if _, err := rhp4.RPCSectorRoots(ctx, transport, cs, prices, renterKey, contract, 0, 2); err == nil {
		t.Fatal("DEFECT C10: RPCSectorRoots reported success for a response with the wrong number of roots")
	}
}
