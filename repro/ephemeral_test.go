package repro

import (
	"testing"
	"time"

	"go.sia.tech/core/types"
	"go.sia.tech/coreutils"
	"go.sia.tech/coreutils/chain"
	"go.sia.tech/coreutils/testutil"
)

// TestEphemeralChildSurvivesUnrelatedBlock: a pooled [parent, child] v2 set
// (child spends the parent's ephemeral output) must stay in the pool when a
// block that confirms neither is applied, and rebasing such a set across an
// unrelated block must succeed. DEFECT C05/C13: on the pinned tree the proof
// updater compares the ephemeral sentinel leaf index with the accumulator size
// and declares the child invalid.
func TestEphemeralChildSurvivesUnrelatedBlock(t *testing.T) {
	n, genesisBlock := testutil.V2Network()
	sk := types.GeneratePrivateKey()
	sp := types.PolicyPublicKey(sk.PublicKey())
	addr := sp.Address()

	store, genesisState, err := chain.NewDBStore(chain.NewMemDB(), n, genesisBlock, nil)
	if err != nil {
		t.Fatal(err)
	}
	cm := chain.NewManager(store, genesisState)
	es := testutil.NewElementStateStore(t, cm)
	testutil.MineBlocks(t, cm, addr, 5+int(n.MaturityDelay))
	es.Wait(t)

	cs := cm.TipState()
	basis, sces := es.SiacoinElements()
	var parent types.SiacoinElement
	for _, sce := range sces {
		if sce.SiacoinOutput.Address == addr && sce.MaturityHeight <= cs.Index.Height {
			parent = sce
			break
		}
	}
	fee := types.Siacoins(1)
	parentTxn := types.V2Transaction{
		SiacoinInputs:  []types.V2SiacoinInput{{Parent: parent, SatisfiedPolicy: types.SatisfiedPolicy{Policy: sp}}},
		MinerFee:       fee,
		SiacoinOutputs: []types.SiacoinOutput{{Address: addr, Value: parent.SiacoinOutput.Value.Sub(fee)}},
	}
	parentTxn.SiacoinInputs[0].SatisfiedPolicy.Signatures = []types.Signature{sk.SignHash(cs.InputSigHash(parentTxn))}
	ephemeral := parentTxn.EphemeralSiacoinOutput(0)
	childTxn := types.V2Transaction{
		SiacoinInputs:  []types.V2SiacoinInput{{Parent: ephemeral, SatisfiedPolicy: types.SatisfiedPolicy{Policy: sp}}},
		MinerFee:       fee,
		SiacoinOutputs: []types.SiacoinOutput{{Address: types.VoidAddress, Value: ephemeral.SiacoinOutput.Value.Sub(fee)}},
	}
	childTxn.SiacoinInputs[0].SatisfiedPolicy.Signatures = []types.Signature{sk.SignHash(cs.InputSigHash(childTxn))}
	set := []types.V2Transaction{parentTxn, childTxn}

	if _, err := cm.AddV2PoolTransactions(basis, set); err != nil {
		t.Fatal(err)
	}

	// an empty block found by another miner
	b := types.Block{
		ParentID:     cs.Index.ID,
		Timestamp:    types.CurrentTimestamp(),
		MinerPayouts: []types.SiacoinOutput{{Value: cs.BlockReward(), Address: types.VoidAddress}},
		V2:           &types.V2BlockData{Height: cs.Index.Height + 1},
	}
	b.V2.Commitment = cs.Commitment(types.VoidAddress, b.Transactions, b.V2Transactions())
	if !coreutils.FindBlockNonce(cs, &b, 10*time.Second) {
		t.Fatal("failed to find nonce")
	}
	if err := cm.AddBlocks([]types.Block{b}); err != nil {
		t.Fatal(err)
	}

	if _, ok := cm.V2PoolTransaction(parentTxn.ID()); !ok {
		t.Fatal("parent left the pool although it was not confirmed")
	}
	if _, ok := cm.V2PoolTransaction(childTxn.ID()); !ok {
		t.Errorf("DEFECT C05: the child was dropped from the pool by a block that confirmed neither it nor its parent")
	}
	// rebasing the original set across the unrelated block
	updated, err := cm.UpdateV2TransactionSet([]types.V2Transaction{parentTxn.DeepCopy(), childTxn.DeepCopy()}, basis, cm.Tip())
	if err != nil {
		t.Fatalf("DEFECT C13: rebasing a set with an ephemeral input across an unrelated block failed: %v", err)
	} else if len(updated) != 2 {
		t.Fatalf("DEFECT C13: expected both transactions back, got %d", len(updated))
	}
}
