#!/usr/bin/env python3
"""Imports confirmed seeded changes from /tmp/seeds into /verif/seeded/<name>/ and (re)computes which checks catch them.
usage: import_seeds.py [--detect-only]"""
import json, os, re, shutil, subprocess, sys, glob
ROOT='/verif'; SEEDS='/tmp/seeds'; WT='/tmp/wt/seedscratch'
props=[json.loads(l)['id'] for l in open(f'{ROOT}/properties.jsonl')]
claimed=[c['property_id'] for c in json.load(open(f'{ROOT}/MANIFEST.json'))['checks']]
def sh(cmd, **kw): return subprocess.run(cmd, shell=True, capture_output=True, text=True, **kw)
sh('cd /verif/checker && GOFLAGS=-mod=mod GOPROXY=off go build -o /verif/.bin/sialint-seed ./cmd/sialint')
def ensure_wt():
    if not os.path.isdir(WT): sh(f'git -C /repo worktree add -q --detach {WT} HEAD')
    head=sh('git -C /repo rev-parse HEAD').stdout.strip()
    sh(f'git -C {WT} checkout -q --detach {head}'); sh(f'git -C {WT} checkout -q -- .'); sh(f'git -C {WT} clean -fdq')
def detect(patch):
    ensure_wt()
    r=sh(f'git -C {WT} apply {patch}')
    if r.returncode!=0: return None
    hits={}
    from concurrent.futures import ThreadPoolExecutor
    def one(p):
        return p, sh(f'{ROOT}/.bin/sialint-seed -property {p} -repo {WT} -out /tmp/ev-seed-{p}').stdout
    with ThreadPoolExecutor(max_workers=10) as ex:
        for p,out in ex.map(one, claimed):
            rules=sorted(set(re.findall(r'(?:FINDING|UNDECIDED) rule=(\S+)', out)))
            if rules: hits[p]=rules
    sh(f'git -C {WT} checkout -q -- .')
    return hits
if '--detect-only' not in sys.argv:
    for d in sorted(glob.glob(f'{SEEDS}/C*-*/v*')):
        m=re.match(r'.*/(C\d+)-(\w+)/v(\d+)$', d); prop,tag,k=m.groups()
        name=f'{prop}-{tag}{k}'
        dst=f'{ROOT}/seeded/{name}'
        if os.path.isdir(dst): continue
        os.makedirs(dst)
        for f in os.listdir(d): shutil.copy(os.path.join(d,f), dst)
        print('imported', name)
for dst in sorted(glob.glob(f'{ROOT}/seeded/*')):
    name=os.path.basename(dst); prop=name.split('-')[0]
    meta_p=f'{dst}/meta.json'
    meta=json.load(open(meta_p)) if os.path.exists(meta_p) else {}
    meta.setdefault('name',name); meta.setdefault('property',prop)
    notes=open(f'{dst}/notes.md').read() if os.path.exists(f'{dst}/notes.md') else ''
    meta.setdefault('origin','independent sub-agent given only the property text and a scratch worktree' if not name.startswith('fixrevert') else 'reverse of a fix: commit in /repo')
    hits=detect(f'{dst}/patch.diff')
    meta['applies_to_repo_head']=hits is not None
    meta['repo_head']=sh('git -C /repo rev-parse --short HEAD').stdout.strip()
    if hits is not None:
        meta['detected_by']=hits
        meta['caught_by_own_property_check']=prop in hits
        meta['caught']=bool(hits)
    json.dump(meta,open(meta_p,'w'),indent=1)
    print(name, 'applies' if hits is not None else 'DOES-NOT-APPLY', hits)
