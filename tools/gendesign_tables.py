#!/usr/bin/env python3
"""Regenerates the appendices of DESIGN.md (rule list with instances, seeded-change matrix) from the checker's own output."""
import json, glob, subprocess, re, os
root='/verif'
txt=open(f'{root}/DESIGN.md').read()
marker='\n---------------------------------------------------------------------------------------------------------------------\n\n## Appendix A'
if marker in txt: txt=txt[:txt.index(marker)]
rules=[l.split('\t') for l in subprocess.check_output([f'{root}/.bin/sialint','-list']).decode().strip().split('\n')]
inst={}
for p in glob.glob(f'{root}/evidence/C*.json'):
    e=json.load(open(p))
    inst.update(e['coverage'].get('rule_instances',{}))
key=lambda r:[int(x) for x in re.findall(r'\d+',r[0])]
out=[marker.lstrip('\n') if False else '']
a=['','---------------------------------------------------------------------------------------------------------------------','',
   '## Appendix A — rules (generated from `sialint -list` and the committed evidence)','',
   '| rule | floor | instances today | structural predicate |','|---|---|---|---|']
for r in sorted(rules,key=key):
    rid,floor,th,doc=r[0],r[1].split('=')[1],r[2],r[3]
    n=inst.get(rid,'thorough-only' if 'true' in th else '?')
    a.append(f'| {rid} | {floor} | {n} | {doc} |')
b=['','## Appendix B — seeded changes and the rules that report them (generated from `seeded/*/meta.json`)','',
   '| seeded change | property | origin | reported by |','|---|---|---|---|']
for m in sorted(glob.glob(f'{root}/seeded/*/meta.json')):
    d=json.load(open(m))
    det='; '.join(f"{p}: {', '.join(rs)}" for p,rs in sorted(d.get('detected_by',{}).items())) or '**not detected**'
    origin='fix reversal' if d['name'].startswith('fixrevert') else 'independent sub-agent'
    b.append(f"| {d['name']} | {d.get('property','?')} | {origin} | {det} |")
open(f'{root}/DESIGN.md','w').write(txt.rstrip('\n')+'\n'+'\n'.join(a+b)+'\n')
print('appendices written:',len(rules),'rules')
