#!/bin/bash
# usage: verify_seed.sh <dir with patch.diff, demo test(s), demo_path.txt> [worktree]
# Confirms: patch applies; with it the repo builds, the full suite passes and the demo FAILS; without it the demo PASSES.
set -u
D=$(realpath "$1"); WT=${2:-/tmp/wt/verify-$$}
export GOFLAGS=-mod=mod GOPROXY=off; unset GOTOOLCHAIN GOSUMDB
git -C /repo worktree add -q --detach $WT HEAD || exit 2
cleanup() { git -C /repo worktree remove --force $WT; }
trap cleanup EXIT
cd $WT
place_demo() {
  while IFS= read -r line; do
    [ -z "$line" ] && continue
    f=$(echo "$line" | sed 's/ *->.*//' | xargs); d=$(echo "$line" | sed 's/.*-> *//' | xargs)
    [ -f "$D/$f" ] && cp "$D/$f" "$WT/$d/" && echo "$d" 
  done < "$D/demo_path.txt" | sort -u
}
PKGS=$(place_demo)
RUNPAT=$(grep -ho 'func Test[A-Za-z0-9_]*' $(for l in $(cat $D/demo_path.txt | sed 's/ *->.*//'); do echo $D/$l; done) | sed 's/func //' | paste -sd'|')
echo "demo pkgs: $PKGS  tests: $RUNPAT"
r_clean=0; for p in $PKGS; do go test -count=1 -run "^($RUNPAT)\$" ./$p > /tmp/vs-clean-$$.log 2>&1 || r_clean=1; done
echo "clean-tree demo exit=$r_clean (want 0)"
git apply "$D/patch.diff" || { echo "RESULT $D: PATCH-FAIL"; exit 1; }
go build ./... || { echo "RESULT $D: BUILD-FAIL"; exit 1; }
r_demo=0; for p in $PKGS; do go test -count=1 -run "^($RUNPAT)\$" ./$p > /tmp/vs-demo-$$.log 2>&1 || r_demo=1; done
echo "patched demo exit=$r_demo (want 1)"; tail -5 /tmp/vs-demo-$$.log | cut -c1-300
# remove demos, run the whole unedited suite on the patched tree
git clean -fdq
r_suite=0; go test -vet=off -count=1 -timeout 25m ./... > /tmp/vs-suite-$$.log 2>&1 || r_suite=1
if [ $r_suite = 1 ]; then grep -v "^ok\|no test files" /tmp/vs-suite-$$.log | head -20; echo "(retrying once for flakiness)"; r_suite=0; go test -vet=off -count=1 -timeout 25m ./... > /tmp/vs-suite-$$.log 2>&1 || r_suite=1; fi
echo "patched suite exit=$r_suite (want 0)"
if [ $r_clean = 0 ] && [ $r_demo = 1 ] && [ $r_suite = 0 ]; then echo "RESULT $D: CONFIRMED"; else echo "RESULT $D: REJECTED clean=$r_clean demo=$r_demo suite=$r_suite"; fi
rm -f /tmp/vs-*-$$.log
