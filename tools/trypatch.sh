#!/bin/bash
# usage: trypatch.sh [-R] <patch> <prop>...   — analyse a scratch worktree of /repo with the patch applied
# (development aid; never touches /repo's working tree)
set -u
REV=""
if [ "$1" = "-R" ]; then REV="-R"; shift; fi
PATCH=$(realpath "$1"); shift
WT=${TRYWT:-/tmp/wt/try}
(cd /verif/checker && GOFLAGS=-mod=mod GOPROXY=off go build -o /verif/.bin/sialint ./cmd/sialint) || exit 2
if [ ! -d $WT ]; then git -C /repo worktree add -q --detach $WT HEAD; fi
git -C $WT checkout -q --detach $(git -C /repo rev-parse HEAD) 2>/dev/null
git -C $WT checkout -q -- . ; git -C $WT clean -fdq
git -C $WT apply $REV "$PATCH" || { echo "PATCH DOES NOT APPLY"; exit 2; }
for p in "$@"; do
  /verif/.bin/sialint -property $p -repo $WT -out /tmp/ev-scratch | grep -v "^  rule\|^sialint" 
done
git -C $WT checkout -q -- .
