#!/usr/bin/env python3
"""Regenerates /verif/MANIFEST.json from tools/claims.json (the list of built properties)."""
import json, os
root = os.path.dirname(os.path.dirname(os.path.abspath(__file__)))
claims = json.load(open(os.path.join(root, 'tools', 'claims.json')))
props = [json.loads(l) for l in open(os.path.join(root, 'properties.jsonl'))]
checks, na = [], []
for p in props:
    pid = p['id']
    c = claims.get(pid)
    if not c or c.get('not_applicable'):
        na.append({"property_id": pid, "reason": (c or {}).get('not_applicable', 'rules for this property are not built yet; no claim is made')})
        continue
    checks.append({
        "property_id": pid,
        "quick_cmd": f"./run.sh {pid} quick",
        "thorough_cmd": f"./run.sh {pid} thorough",
        "evidence_file": f"/verif/evidence/{pid}.json",
        "replay_cmd_template": f"./run.sh {pid} quick   # re-analyses /repo; the violation file {{path}} names rule, obligation and position",
        "engine": "sialint",
        "level_claimed": {"category": "other", "text": c['text'], "design_ref": f"DESIGN.md §2 {pid}"},
        "level_note": c['note'],
        "technique": c['technique'],
    })
m = {
    "version": 1,
    "setup_cmd": "cd /verif/checker && unset GOTOOLCHAIN GOSUMDB; GOFLAGS=-mod=mod GOPROXY=off GOWORK=off go build -o /verif/.bin/sialint ./cmd/sialint || (PATH=/opt/veriftools/go1.26.8/bin:$PATH GOTOOLCHAIN=local GOFLAGS=-mod=mod GOPROXY=off go build -o /verif/.bin/sialint ./cmd/sialint)",
    "hooks": {
        "guard": "verif",
        "enable": "none: the checks are purely static and need no instrumentation of /repo; the build tag is reserved and unused",
        "baseline_off_cmd": "cd /repo && GOFLAGS=-mod=mod GOPROXY=off go test -vet=off -count=1 -timeout 25m ./...",
        "source_commits": [],
        "add_only": True,
    },
    "engines": [{
        "name": "sialint", "path": "/verif/checker",
        "serves_properties": [c['property_id'] for c in checks],
        "kind_free_text": "repository-specific static analyser: go/packages type-checked AST, statement-level CFG (vendored go/cfg with short-circuit decomposition), path/dominance/lockset/taint rules, go/ssa+VTA call graph for closures; never executes /repo",
    }],
    "checks": checks,
    "notes": "All claims are at level 'other': each check decides structural necessary conditions of its property (listed in evidence coverage.explanation and DESIGN.md §2) on /repo's current working tree, not the behavioural property itself. Genuine defects found on the pinned tree were repaired by 'fix:' commits in /repo and are recorded as fixed in known_findings.json.",
    "not_applicable": na,
}
json.dump(m, open(os.path.join(root, 'MANIFEST.json'), 'w'), indent=1)
print("claimed:", [c['property_id'] for c in checks])
