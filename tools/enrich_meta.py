#!/usr/bin/env python3
"""Fills breaks / mechanism / needs / ran / demonstration of seeded/*/meta.json from notes.md (sections written by the
seeding agent) where they are still missing. Idempotent."""
import json, glob, os, re
RAN=("tools/verify_seed.sh in a scratch worktree of /repo: patch applies, `go build ./...` succeeds, the unedited full suite "
     "`go test -vet=off -count=1 ./...` passes with the patch, the demonstration test fails with the patch and passes without it "
     "— CONFIRMED; then tools/import_seeds.py ran all checks on the patched tree (detected_by)")
def sections(text):
    out={}; cur=None
    for line in text.splitlines():
        m=re.match(r'^#+\s+(.*)$', line)
        if m: cur=m.group(1).strip().lower(); out[cur]=[]; continue
        if cur is not None: out[cur].append(line)
    return {k:' '.join(' '.join(v).split()) for k,v in out.items()}
def pick(secs, *keys):
    for k,v in secs.items():
        if any(x in k for x in keys) and v: return v
    return None
for d in sorted(glob.glob('/verif/seeded/*')):
    mp=d+'/meta.json'
    if not os.path.exists(mp) or not os.path.exists(d+'/notes.md'): continue
    meta=json.load(open(mp)); secs=sections(open(d+'/notes.md').read()); ch=False
    for field,keys in (('breaks',('clause','breaks','property')),('mechanism',('mechanism','site','change')),('needs',('needed','needs','manifest'))):
        if not meta.get(field):
            v=pick(secs,*keys)
            if v: meta[field]=v; ch=True
    if not meta.get('ran'): meta['ran']=RAN; ch=True
    if not meta.get('demonstration'):
        demos=[]
        dp=d+'/demo_path.txt'
        dest=open(dp).read().strip() if os.path.exists(dp) else ''
        for f in sorted(os.listdir(d)):
            if f.endswith('_test.go'): demos.append(dest if '->' in dest else f+(' -> '+dest if dest else ''))
        if demos: meta['demonstration']=demos; ch=True
    if ch: json.dump(meta,open(mp,'w'),indent=1); print('enriched',os.path.basename(d))
