import json, os, re, shutil, subprocess, glob
from concurrent.futures import ThreadPoolExecutor
def sh(c): return subprocess.run(c, shell=True, capture_output=True, text=True)
props=[json.loads(l)['id'] for l in open('/verif/properties.jsonl')]
WT='/tmp/wt/importn'
if not os.path.isdir(WT): sh(f'git -C /repo worktree add -q --detach {WT} HEAD')
head=sh('git -C /repo rev-parse --short HEAD').stdout.strip()
for d in sorted(glob.glob('/tmp/seeds-n/C*-n1')):
    name=os.path.basename(d); prop=name.split('-')[0]
    dst=f'/verif/seeded/{name}'; os.makedirs(dst, exist_ok=True)
    for f in os.listdir(d): shutil.copy(os.path.join(d,f), dst)
    sh(f'git -C {WT} checkout -q -- .; git -C {WT} clean -fdq')
    assert sh(f'git -C {WT} apply {dst}/patch.diff').returncode==0
    def one(p): return p, sh(f'/verif/.bin/sialint -property {p} -repo {WT} -out /tmp/ev-imp-{p}').stdout
    hits={}
    with ThreadPoolExecutor(max_workers=10) as ex:
        for p,out in ex.map(one, props):
            rules=sorted(set(re.findall(r'(?:FINDING|UNDECIDED) rule=(\S+)', out)))
            rules=[r for r in rules if not r.endswith('.floor')]
            if rules: hits[p]=rules
    notes=open(f'{dst}/notes.md').read() if os.path.exists(f'{dst}/notes.md') else ''
    demo=open(f'{dst}/demo_path.txt').read().strip()
    vlog=open(f'/tmp/seeds-n/verify-{prop}.log').read()
    res=re.search(r'RESULT .*: (\w+)', vlog).group(1)
    meta={'name':name,'property':prop,'origin':'independent sub-agent given only the property text and a scratch worktree (round n)',
      'breaks':notes.strip().split('\n')[0][:600], 'needs':notes.strip()[:1500],
      'demonstration':f'{demo} (copy the test file into that package dir of a worktree; go test -run of its Test function fails with patch.diff applied, passes without)',
      'ran':f'tools/verify_seed.sh: clean-tree demo passes, patched demo fails, full unedited suite passes on the patched tree: {res}',
      'applies_to_repo_head':True,'repo_head':head,'detected_by':hits,'caught_by_own_property_check':prop in hits,'caught':bool(hits)}
    json.dump(meta,open(f'{dst}/meta.json','w'),indent=1)
    print(name,res,hits)
sh(f'git -C /repo worktree remove --force {WT}')
