#!/bin/bash
# usage: triage.sh Cxx  — packages worktree n-Cxx output into /tmp/seeds-n/Cxx-n1 and runs verify + detection
P=$1; WT=/tmp/wt/n-$P; D=/tmp/seeds-p/$P-p1
mkdir -p $D
cp $WT/seed.patch $D/patch.diff || exit 1
cp $WT/seed_meta.txt $D/notes.md 2>/dev/null
# find demo test location in the worktree
DEMO=$(cd $WT && git status --porcelain | grep '^??' | awk '{print $2}' | grep '_test.go$' | grep -v '^demo/' | head -1)
[ -z "$DEMO" ] && { echo "no demo found in $WT"; git -C $WT status --porcelain; exit 1; }
cp $WT/$DEMO $D/
echo "$(basename $DEMO) -> $(dirname $DEMO)" > $D/demo_path.txt
/verif/tools/verify_seed.sh $D /tmp/wt/verify-$P 2>&1 | tail -8
