#!/bin/bash
WT=/tmp/wt/refo; [ -d $WT ] || git -C /repo worktree add -q --detach $WT HEAD
cp /verif/.bin/sialint /verif/.bin/sialint-refo
for d in /verif/refactors/chain*/r*; do
  git -C $WT checkout -q -- .; git -C $WT clean -fdq
  git -C $WT apply $d/patch.diff 2>/dev/null || { echo "$d: NOAPPLY"; continue; }
  a=$(for P in C13 C17; do /verif/.bin/sialint-refo -property $P -repo $WT -out /tmp/ev-refo; done | grep -o "^\(FINDING\|UNDECIDED\) rule=[A-Z0-9.a-z]*" | sort -u | tr '\n' ' ')
  echo "$d: ${a:-CLEAN}"
done
echo DONE
