#!/bin/bash
# usage: run_refactors.sh [dir ...]   — applies each refactors/<area>/r<k>/patch.diff to a scratch worktree and runs all claimed checks.
# Prints one line per patch: CLEAN or the rules that raised an alarm (candidates for false alarms, to be triaged).
set -u
cd /verif
export WT=${REFWT:-/tmp/wt/scratch}
(cd /verif/checker && GOFLAGS=-mod=mod GOPROXY=off go build -o /verif/.bin/sialint-ref ./cmd/sialint) || exit 2
[ -d $WT ] || git -C /repo worktree add -q --detach $WT HEAD
PROPS=$(python3 -c "import json;print(' '.join(c['property_id'] for c in json.load(open('/verif/MANIFEST.json'))['checks']))")
DIRS=${@:-$(ls -d /verif/refactors/*/r* 2>/dev/null)}
for d in $DIRS; do d=$(realpath $d)
  git -C $WT checkout -q --detach $(git -C /repo rev-parse HEAD); git -C $WT checkout -q -- .; git -C $WT clean -fdq
  if ! git -C $WT apply $d/patch.diff 2>/dev/null; then echo "$d: PATCH-DOES-NOT-APPLY"; continue; fi
  alarms=$(echo $PROPS | tr ' ' '\n' | xargs -P 10 -I{} sh -c '/verif/.bin/sialint-ref -property {} -repo '$WT' -out /tmp/ev-$(basename $WT)-{} | grep -o "^\(FINDING\|UNDECIDED\) rule=[A-Z0-9.a-z]*" | sed "s/ rule=/:/" | sort -u' | sort -u | tr '\n' ' ')
  if [ -z "$alarms" ]; then echo "$d: CLEAN"; else echo "$d: ALARM $alarms"; fi
done
git -C $WT checkout -q -- .
