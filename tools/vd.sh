#!/bin/bash
# usage: vd.sh <patch|-> <func> [viewdump flags…] — print the expanded view of a function in the scratch worktree
# with the patch applied (development aid). Chain role functions are kept as calls by default.
set -u
PATCH="$1"; FN="$2"; shift 2
WT=/tmp/wt/vd
(cd /verif/checker && GOFLAGS=-mod=mod GOPROXY=off go build -o /verif/.bin/viewdump ./cmd/viewdump) || exit 2
if [ ! -d $WT ]; then git -C /repo worktree add -q --detach $WT HEAD; fi
git -C $WT checkout -q -- . ; git -C $WT clean -fdq
if [ "$PATCH" != "-" ]; then git -C $WT apply "$(realpath $PATCH)" || exit 2; fi
/verif/.bin/viewdump -repo $WT -stop applyTip,revertTip,reorgTo,reorgPath,revalidatePool,updateTxnProofs,updateV2TransactionProofs,applyPoolUpdate,revertPoolUpdate,rebaseUpdates "$@" -func "$FN"
git -C $WT checkout -q -- .
