#!/bin/bash
# usage: selfcheck.sh [quick|thorough|refactors|all]
# Regression run for the machinery itself: every claimed check at the given tier on /repo
# (must exit 0 with no VIOLATION / SELFTEST-FAILED line), then the benign-refactor corpus (must be CLEAN).
set -u
cd /verif
what=${1:-all}
PROPS=$(python3 -c "import json;print(' '.join(c['property_id'] for c in json.load(open('/verif/MANIFEST.json'))['checks']))")
fail=0
run_tier() {
  for p in $PROPS; do
    out=$(./run.sh $p $1 2>&1); rc=$?
    bad=$(echo "$out" | grep -c "^VIOLATION\|SELFTEST-FAILED\|^UNDECIDED")
    if [ $rc -ne 0 ] || [ "$bad" != "0" ]; then echo "$p $1: rc=$rc"; echo "$out" | grep "^VIOLATION\|SELFTEST-FAILED\|^UNDECIDED\|^FINDING" | head -5; fail=1; fi
  done
  echo "tier $1 done"
}
engine_tests() {
  (cd /verif/checker && GOFLAGS=-mod=mod GOPROXY=off go test ./internal/... 2>&1 | tail -3) | grep -q "^FAIL\|--- FAIL" && { echo "engine tests failed"; fail=1; }
  echo "engine tests done"
}
case $what in
  quick) engine_tests; run_tier quick;;
  thorough) run_tier thorough;;
  refactors) tools/run_refactors.sh | grep -v CLEAN | grep -v -F -f <(grep -v '^#' refactors/LIMITS.txt | cut -d' ' -f1) && fail=1;;
  all) engine_tests; run_tier quick; run_tier thorough; tools/run_refactors.sh | grep -v CLEAN | grep -v -F -f <(grep -v '^#' refactors/LIMITS.txt | cut -d' ' -f1) && fail=1;;
esac
exit $fail
